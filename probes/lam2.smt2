(declare-fun sign ((Array Int (_ BitVec 8)) Int (_ BitVec 8)) (_ BitVec 16))
(declare-fun verify ((_ BitVec 8) (Array Int (_ BitVec 8)) Int (_ BitVec 16)) Bool)
(declare-const resp (Array Int (_ BitVec 8)))
(declare-const n Int)
(declare-const k (_ BitVec 8))
(assert (and (>= n 10) (<= n 65000)))
; axiom instance for this key
(assert (forall ((m (Array Int (_ BitVec 8))) (l Int)) (verify k m l (sign m l k))))
; server: msg = resp[2 : 2+n) normalised
(define-fun smsg () (Array Int (_ BitVec 8)) (lambda ((j Int)) (ite (and (>= j 0) (< j n)) (select resp (+ j 2)) #x00)))
(define-fun sig () (_ BitVec 16) (sign smsg n k))
; wire = resp[2:2+n) ++ sig(2 bytes)
(define-fun wire () (Array Int (_ BitVec 8)) (lambda ((j Int)) (ite (< j n) (select resp (+ j 2)) (ite (= j n) ((_ extract 7 0) sig) ((_ extract 15 8) sig)))))
; client: respBuf = copy of wire; msg = respBuf[: n]; sig = respBuf[n:n+2]
(define-fun cmsg () (Array Int (_ BitVec 8)) (lambda ((j Int)) (ite (and (>= j 0) (< j n)) (select wire j) #x00)))
(define-fun csig () (_ BitVec 16) (concat (select wire (+ n 1)) (select wire n)))
(assert (not (verify k cmsg n csig)))
(check-sat)
