import time, sys
from z3 import *
N = 4032
P = Array('P', BitVecSort(32), BitVecSort(64))
s = Solver()
ov = {}
for i in range(N):
    c = UGT(Select(P, BitVecVal(i, 32)), BitVecVal(0, 64))
    old = ov.get(i // 8, BitVecVal(0, 8))
    ov[i // 8] = If(c, old | BitVecVal(1 << (i % 8), 8), old)
t0 = time.time(); res = {}
for kb in range(504):
    r = BitVec('r', 3)
    k = BitVecVal(8 * kb, 32) + ZeroExt(29, r)
    bit = (LShR(ov[kb], ZeroExt(5, r)) & 1) == 1
    s.push()
    s.add(bit != UGT(Select(P, k), BitVecVal(0, 64)))
    res[str(s.check())] = res.get(str(s.check()), 0) + 1
    s.pop()
print(res, round(time.time() - t0, 2))
