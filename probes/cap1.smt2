; p > (cap*135)/100  <=>  100*p > 135*cap  (in 128-bit), assuming cap*135 does not overflow
(declare-const p (_ BitVec 64))
(declare-const cap (_ BitVec 64))
(define-fun code () Bool (bvugt p (bvudiv (bvmul cap #x0000000000000087) #x0000000000000064)))
(define-fun spec () Bool (bvugt (bvmul ((_ zero_extend 64) p) #x00000000000000000000000000000064) (bvmul ((_ zero_extend 64) cap) #x00000000000000000000000000000087)))
(assert (bvule cap #x01e573ac901e573a)) ; floor((2^64-1)/135)
(assert (not (= code spec)))
(check-sat)
