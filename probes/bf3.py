import time, sys
from z3 import *
N = int(sys.argv[1])
P = Array('P', BitVecSort(32), BitVecSort(64))
s = Solver(); s.set("timeout", 300000)
ov = {}
for i in range(N):
    c = UGT(Select(P, BitVecVal(i, 32)), BitVecVal(0, 64))
    old = ov.get(i // 8, BitVecVal(0, 8))
    ov[i // 8] = If(c, old | BitVecVal(1 << (i % 8), 8), old)
bf = K(BitVecSort(32), BitVecVal(0, 8))
for b, v in ov.items():
    bf = Store(bf, BitVecVal(b, 32), v)
k = BitVec('k', 32)
s.add(ULT(k, N))
byte = Select(bf, UDiv(k, BitVecVal(8, 32)))
bit = (LShR(byte, Extract(7, 0, URem(k, BitVecVal(8, 32)))) & 1) == 1
s.add(bit != UGT(Select(P, k), BitVecVal(0, 64)))
t0 = time.time()
print(N, s.check(), round(time.time() - t0, 2))
