#!/bin/sh
# Builds the gosym engine offline from /verif/engine.
set -e
cd "$(dirname "$0")/engine"
export GOFLAGS=-mod=mod GOPROXY=off GOSUMDB=off GOTOOLCHAIN=local
go build -o ../bin/gosym .
