//go:build verif

package glow

// C20: timeslot arithmetic is exact (production constants under tag `verif`,
// test constants under `verif,test`).

func verifH_C20_roundtrip() {
	t := verifI64("t")
	g := int64(GenesisTime)
	verifAssume(t >= g)
	verifAssume(t-g <= 0xFFFFFFFF) // stated bound: genesis .. genesis+2^32-1 seconds
	slot, err := UnixToTimeslot(t)
	verifAssert(err == nil, "at_or_after_genesis_accepted")
	start := TimeslotToUnix(slot)
	verifAssert(start <= t, "slot_start_le_t")
	verifAssert(t-start < 300, "t_within_300s_of_slot_start")
	verifAssert((start-g)%300 == 0, "slot_start_aligned")
	// converting the slot start gives the same slot
	slot2, err2 := UnixToTimeslot(start)
	verifAssert(err2 == nil && slot2 == slot, "roundtrip_same_slot")
	verifReach("end")
}

func verifH_C20_before_genesis_refused() {
	t := verifI64("t")
	verifAssume(t < int64(GenesisTime))
	_, err := UnixToTimeslot(t)
	verifAssert(err != nil, "before_genesis_refused")
	verifReach("end")
}

func verifH_C20_monotone() {
	a := verifI64("a")
	b := verifI64("b")
	g := int64(GenesisTime)
	verifAssume(a >= g)
	verifAssume(b >= a)
	verifAssume(b-g <= 0xFFFFFFFF)
	sa, ea := UnixToTimeslot(a)
	sb, eb := UnixToTimeslot(b)
	verifAssert(ea == nil && eb == nil, "both_accepted")
	verifAssert(sa <= sb, "monotone")
	// exactness against the integer specification floor((t-G)/300), no 32-bit truncation inside the bound
	verifAssert(int64(sa) == (a-g)/300, "equals_integer_floor")
	verifReach("end")
}
