//go:build verif

package glow

import "time"

// C19: rate limiter. Concurrent callers reduce to a sequence of calls with
// non-decreasing instants because Allow is one critical section that reads the
// clock inside it (lock obligations are part of every harness below).

var verifTNames = []string{"t0", "t1", "t2", "t3", "t4", "t5", "t6", "t7"}

// k = limit+2 calls from the empty limiter at arbitrary non-decreasing instants.
func verifH_C19_sequence() {
	limit := verifCase("limit", 1, 3)
	k := limit + 2
	rate := verifI64("rate")
	verifAssume(rate > 0 && rate < 1<<40)
	r := NewRateLimiter(limit, time.Duration(rate))
	var ts [8]int64
	var adm [8]bool
	prev := int64(0)
	for j := 0; j < k; j++ {
		t := verifI64(verifTNames[j])
		verifAssume(t >= prev && t < 1<<50)
		prev = t
		verifSetNowNanos(t)
		adm[j] = r.Allow()
		ts[j] = t
		cnt := 0
		for i := 0; i < j; i++ {
			if adm[i] && ts[i] > t-rate {
				cnt++
			}
		}
		if adm[j] {
			verifAssert(cnt < limit, "window_never_exceeds_limit")
		} else {
			verifAssert(cnt >= limit, "admitted_when_below_limit")
		}
		verifAssert(verifLocksHeld() == 0, "lock_released")
	}
	verifReach("end")
}

// One step from an arbitrary state satisfying Inv_R (sorted, len <= limit, all <= now).
func verifH_C19_step() {
	limit := verifCase("limit", 1, 3)
	n := verifCase("n", 0, 3)
	if n > limit {
		return
	}
	rate := verifI64("rate")
	verifAssume(rate > 0 && rate < 1<<40)
	now := verifI64("now")
	verifAssume(now >= 0 && now < 1<<50)
	r := &RateLimiter{limit: limit, rate: time.Duration(rate), reqs: make([]time.Time, n)}
	var pre [3]int64
	prev := int64(0)
	for i := 0; i < n; i++ {
		x := verifI64(verifTNames[i])
		verifAssume(x >= prev && x <= now)
		prev = x
		pre[i] = x
		r.reqs[i] = verifTime(x)
	}
	verifSetNowNanos(now)
	got := r.Allow()
	kept := 0
	for i := 0; i < n; i++ {
		if pre[i] > now-rate {
			kept++
		}
	}
	verifAssert(got == (kept < limit), "admitted_iff_kept_below_limit")
	want := kept
	if got {
		want++
	}
	verifAssert(len(r.reqs) == want, "len_is_kept_plus_admitted")
	verifAssert(len(r.reqs) <= limit, "inv_len_le_limit")
	// content: the kept suffix, in order, then now
	for i := 0; i < n; i++ {
		if i < kept {
			verifAssert(r.reqs[i].UnixNano() == pre[n-kept+i], "kept_suffix_preserved")
		}
	}
	if got {
		verifAssert(r.reqs[len(r.reqs)-1].UnixNano() == now, "now_appended")
	}
	for i := 1; i < len(r.reqs) && i < 4; i++ {
		verifAssert(r.reqs[i-1].UnixNano() <= r.reqs[i].UnixNano(), "inv_sorted")
	}
	verifAssert(verifLocksHeld() == 0, "lock_released")
	verifReach("end")
}
