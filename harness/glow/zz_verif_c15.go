//go:build verif

package glow

import "math"

// C15 (glow part): report and authorization encodings.

func verifLE32(b []byte, o int) uint32 {
	return uint32(b[o]) | uint32(b[o+1])<<8 | uint32(b[o+2])<<16 | uint32(b[o+3])<<24
}

func verifLE64(b []byte, o int) uint64 {
	return uint64(verifLE32(b, o)) | uint64(verifLE32(b, o+4))<<32
}

// report: decode(encode(v)) == v, layout, wrong lengths refused
func verifH_C15_report_roundtrip() {
	var er EquipmentReport
	verifHavoc(&er, "er")
	b := er.Serialize()
	verifAssert(len(b) == 80, "len80")
	// independent little-endian layout
	verifAssert(verifLE32(b, 0) == er.ShortID, "layout_id")
	verifAssert(verifLE32(b, 4) == er.Timeslot, "layout_ts")
	verifAssert(verifLE64(b, 8) == er.PowerOutput, "layout_power")
	for i := 0; i < 64; i++ {
		verifAssert(b[16+i] == er.Signature[i], "layout_sig")
	}
	d, err := DeserializeReport(b)
	verifAssert(err == nil, "decode_ok")
	verifAssert(d == er, "roundtrip")
	verifReach("end")
}

func verifH_C15_report_signing_bytes() {
	var er EquipmentReport
	verifHavoc(&er, "er")
	sb := er.SigningBytes()
	prefix := "EquipmentReport"
	verifAssert(len(sb) == len(prefix)+16, "len31")
	for i := 0; i < len(prefix); i++ {
		verifAssert(sb[i] == prefix[i], "prefix")
	}
	verifAssert(verifLE32(sb, 15) == er.ShortID, "sb_id")
	verifAssert(verifLE32(sb, 19) == er.Timeslot, "sb_ts")
	verifAssert(verifLE64(sb, 23) == er.PowerOutput, "sb_power")
	// injectivity: equal signing bytes => equal signed fields
	var er2 EquipmentReport
	verifHavoc(&er2, "er2")
	sb2 := er2.SigningBytes()
	same := true
	for i := 0; i < len(sb); i++ {
		if sb[i] != sb2[i] {
			same = false
		}
	}
	if same {
		verifAssert(er.ShortID == er2.ShortID && er.Timeslot == er2.Timeslot && er.PowerOutput == er2.PowerOutput, "injective")
	}
	verifReach("end")
}

func verifH_C15_report_wrong_length() {
	raw := verifBytes("raw", 160)
	verifAssume(len(raw) != 80)
	_, err := DeserializeReport(raw)
	verifAssert(err != nil, "wrong_length_refused")
	verifReach("end")
}

func verifH_C15_report_decode_any80() {
	raw := verifBytesN("raw", 80)
	d, err := DeserializeReport(raw)
	verifAssert(err == nil, "len80_accepted")
	b := d.Serialize()
	for i := 0; i < 80; i++ {
		verifAssert(b[i] == raw[i], "encode_decode_identity")
	}
	verifReach("end")
}

func verifH_C15_auth_roundtrip() {
	var ea EquipmentAuthorization
	verifHavoc(&ea, "ea")
	b := ea.Serialize()
	verifAssert(len(b) == 148, "len148")
	verifAssert(verifLE32(b, 0) == ea.ShortID, "layout_id")
	for i := 0; i < 32; i++ {
		verifAssert(b[4+i] == ea.PublicKey[i], "layout_key")
	}
	verifAssert(verifLE64(b, 36) == math.Float64bits(ea.Latitude), "layout_lat")
	verifAssert(verifLE64(b, 44) == math.Float64bits(ea.Longitude), "layout_lon")
	verifAssert(verifLE64(b, 52) == ea.Capacity, "layout_capacity")
	verifAssert(verifLE64(b, 60) == ea.Debt, "layout_debt")
	verifAssert(verifLE32(b, 68) == ea.Expiration, "layout_expiration")
	verifAssert(verifLE32(b, 72) == ea.Initialization, "layout_initialization")
	verifAssert(verifLE64(b, 76) == ea.ProtocolFee, "layout_fee")
	for i := 0; i < 64; i++ {
		verifAssert(b[84+i] == ea.Signature[i], "layout_sig")
	}
	d, err := DeserializeEquipmentAuthorization(b)
	verifAssert(err == nil, "decode_ok")
	// floats compared by bit pattern (covers -0, subnormals, NaN payloads)
	verifAssert(d.ShortID == ea.ShortID && d.PublicKey == ea.PublicKey && d.Capacity == ea.Capacity && d.Debt == ea.Debt &&
		d.Expiration == ea.Expiration && d.Initialization == ea.Initialization && d.ProtocolFee == ea.ProtocolFee && d.Signature == ea.Signature, "roundtrip_ints")
	verifAssert(math.Float64bits(d.Latitude) == math.Float64bits(ea.Latitude) && math.Float64bits(d.Longitude) == math.Float64bits(ea.Longitude), "roundtrip_float_bits")
	verifReach("end")
}

func verifH_C15_auth_signing_bytes() {
	var ea EquipmentAuthorization
	verifHavoc(&ea, "ea")
	sb := ea.SigningBytes()
	b := ea.Serialize()
	prefix := "EquipmentAuthorization"
	verifAssert(len(sb) == len(prefix)+84, "len106")
	for i := 0; i < len(prefix); i++ {
		verifAssert(sb[i] == prefix[i], "prefix")
	}
	for i := 0; i < 84; i++ {
		verifAssert(sb[len(prefix)+i] == b[i], "body_is_serialization_without_signature")
	}
	verifReach("end")
}

func verifH_C15_auth_wrong_length() {
	raw := verifBytes("raw", 300)
	verifAssume(len(raw) != 148)
	_, err := DeserializeEquipmentAuthorization(raw)
	verifAssert(err != nil, "wrong_length_refused")
	verifReach("end")
}

// type separation: signing bytes of a report never equal those of an authorization
func verifH_C15_type_separation_glow() {
	var er EquipmentReport
	var ea EquipmentAuthorization
	verifHavoc(&er, "er")
	verifHavoc(&ea, "ea")
	a := er.SigningBytes()
	b := ea.SigningBytes()
	same := len(a) == len(b)
	if same {
		for i := 0; i < len(a); i++ {
			if a[i] != b[i] {
				same = false
			}
		}
	}
	verifAssert(!same, "report_vs_authorization_distinct")
	verifReach("end")
}
