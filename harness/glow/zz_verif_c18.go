//go:build verif

package glow

import "time"

// C18: event log. Inv_L: logSizeBytes == sum of 2*len(line) over stored
// entries and <= logMaxBytes; key == entry.line; len(line) <= logMaxLineBytes;
// updates non-empty and non-decreasing.

var verifLineNames = []string{"line0", "line1", "line2"}
var verifUpdNames = [][]string{{"u00", "u01"}, {"u10", "u11"}, {"u20", "u21"}}

func verifLogSum(l *EventLogger) int {
	sum := 0
	for _, e := range l.logs {
		sum += 2 * len(e.line)
	}
	return sum
}

func verifLogInv(l *EventLogger) bool {
	ok := l.logSizeBytes == verifLogSum(l) && l.logSizeBytes <= l.logMaxBytes
	for k, e := range l.logs {
		if k != e.line || len(e.line) > l.logMaxLineBytes || len(e.updates) == 0 {
			ok = false
		}
	}
	return ok
}

// arbitrary logger with n entries (1..2 updates each) satisfying Inv_L
func verifLogState(n int, now int64) *EventLogger {
	verifUseReal("(*github.com/glowlabs-org/gca-backend/glow.EventLogger).Printf")
	maxB := verifInt("maxBytes")
	maxL := verifInt("maxLine")
	exp := verifI64("expiry")
	verifAssume(maxB >= 0 && maxB <= 40 && maxL >= 0 && maxL <= 6 && exp > 0 && exp < 1<<40)
	l := NewEventLogger(time.Duration(exp), maxB, maxL)
	size := 0
	var lines [3]string
	for i := 0; i < n; i++ {
		line := verifStr(verifLineNames[i], 3)
		for k := 0; k < i; k++ {
			verifAssume(line != lines[k])
		}
		verifAssume(len(line) <= maxL)
		lines[i] = line
		two := verifBool(verifUpdNames[i][1] + ".present")
		a := verifI64(verifUpdNames[i][0])
		b := verifI64(verifUpdNames[i][1])
		verifAssume(a >= 0 && a <= b && b <= now)
		ups := []time.Time{verifTime(a)}
		if two {
			ups = append(ups, verifTime(b))
		}
		l.logs[line] = &LogEntry{line: line, updates: ups}
		size += 2 * len(line)
	}
	l.logSizeBytes = size
	verifAssume(size <= maxB)
	return l
}

func verifH_C18_expire_step() {
	n := verifCase("n", 0, 2)
	now := verifI64("now")
	verifAssume(now >= 0 && now < 1<<50)
	l := verifLogState(n, now)
	cut := verifI64("cut")
	verifAssume(cut >= 0 && cut < 1<<50)
	l.ExpireLogs(verifTime(cut))
	verifAssert(verifLocksHeld() == 0, "lock_released")
	verifAssert(l.logSizeBytes == verifLogSum(l), "accounting_exact_after_expiry")
	verifAssert(verifLogInv(l), "invariant_preserved")
	verifReach("end")
}

func verifH_C18_printf_step() {
	n := verifCase("n", 0, verifTier(1, 2))
	now := verifI64("now")
	verifAssume(now >= 0 && now < 1<<50)
	l := verifLogState(n, now)
	line := verifStr("newline", 4)
	verifSetNowNanos(now)
	l.Printf(line)
	verifAssert(verifLocksHeld() == 0, "lock_released")
	verifAssert(verifLogInv(l), "invariant_preserved")
	cutLen := len(line)
	if cutLen > l.logMaxLineBytes {
		cutLen = l.logMaxLineBytes
	}
	if 2*cutLen <= l.logMaxBytes {
		e, ok := l.logs[line[:cutLen]]
		verifAssert(ok, "most_recent_loggable_line_retained")
		if ok {
			verifAssert(len(e.updates) > 0 && e.updates[len(e.updates)-1].UnixNano() == now, "stamped_now")
		}
	}
	verifReach("end")
}

var verifSeqLines = []string{"s0", "s1", "s2"}
var verifSeqTimes = []string{"st0", "st1", "st2"}

// direct sequences from the empty log: up to 3 Printf calls at arbitrary
// non-decreasing instants (each Printf expires first), then a dump
func verifH_C18_sequence() {
	maxB := verifInt("maxBytes")
	maxL := verifInt("maxLine")
	exp := verifI64("expiry")
	verifAssume(maxB >= 0 && maxB <= 40 && maxL >= 0 && maxL <= 6 && exp > 0 && exp < 1<<40)
	verifUseReal("(*github.com/glowlabs-org/gca-backend/glow.EventLogger).Printf")
	l := NewEventLogger(time.Duration(exp), maxB, maxL)
	k := verifCase("k", 1, verifTier(2, 3))
	prev := int64(0)
	for i := 0; i < k; i++ {
		t := verifI64(verifSeqTimes[i])
		verifAssume(t >= prev && t < 1<<50)
		prev = t
		verifSetNowNanos(t)
		l.Printf(verifStr(verifSeqLines[i], 3))
		verifAssert(l.logSizeBytes <= l.logMaxBytes, "size_within_bound")
		verifAssert(l.logSizeBytes == verifLogSum(l), "accounting_exact")
	}
	m, order := l.DumpLogEntries()
	verifAssert(len(m) == len(order), "dump_lists_every_line_once")
	verifAssert(verifLocksHeld() == 0, "lock_released")
	verifReach("end")
}
