//go:build verif

package client

import (
	"encoding/binary"
	"errors"
	"os"
	"path/filepath"
	"time"

	"github.com/glowlabs-org/gca-backend/server"

	"github.com/glowlabs-org/gca-backend/glow"
)

func verifSyncClient() *Client {
	c := &Client{staticBaseDir: verifTempDir()}
	c.EventLog = glow.NewEventLogger(time.Hour, 1000, 100)
	verifHavoc(&c.staticPubKey, "ownKey")
	verifHavoc(&c.gcaPubKey, "gcaKey")
	c.shortID = verifU32("shortID")
	c.gcaServers = make(map[glow.PublicKey]GCAServer)
	return c
}

// In the panic-freedom harnesses every call of glow.Verify returns an arbitrary
// boolean (a superset of every real behaviour, including a rogue authorized
// server that signs arbitrary replies). Symbolic execution only; the native
// replay below signs for real instead.
func verifStub_github_com_glowlabs_org_gca_backend_glow_Verify(pk glow.PublicKey, data []byte, sig glow.Signature) bool {
	return verifFreshBool()
}

// verifAuthenticate (native replay only): stamps the reply with the current
// time and the contacted server's real signature, so that the outer checks of
// staticServerSync pass and the code behind them is reached.
func verifAuthenticate(stream []byte, priv glow.PrivateKey) {
	if len(stream) < 2+72 {
		return
	}
	n := int(stream[0]) | int(stream[1])<<8
	if n < 72 || n > len(stream)-2 {
		return
	}
	body := stream[2 : 2+n]
	binary.LittleEndian.PutUint64(body[n-72:], uint64(time.Now().Unix()))
	sig := glow.Sign(body[:n-64], priv)
	copy(body[n-64:], sig[:])
}

// C11 (1): whatever bytes the contacted server sends (length prefix included),
// staticServerSync returns without panicking. Verify is uninterpreted, so a
// rogue authorized server that signs arbitrary replies is included.
func verifH_C11_sync_reply_never_panics() {
	verifEnableModel("glow_Verify")
	c := verifSyncClient()
	stream := verifBytesBig("stream", verifTier(2+816, 2+1024))
	gcasKey, gcasPriv := verifKeyPair("server")
	if !verifSymbolic() {
		verifAuthenticate(stream, gcasPriv)
	}
	loc, port := verifServe(stream, false)
	_, _, _, _, _, err := c.staticServerSync(GCAServer{Location: loc, TcpPort: port}, gcasKey, c.gcaPubKey)
	_ = err
	verifReach("end")
}

// ---- the sync round: locking, server selection, ban monotonicity ----

// Model of one sync attempt used by the round harnesses (symbolic execution
// only): any outcome staticServerSync can have, as far as its caller can tell.
var verifSyncCalls int
var verifSyncNames = []string{"sync0", "sync1", "sync2", "sync3", "sync4", "sync5"}
var verifSyncOffsetEqualsLatest uint32

func verifStub_github_com_glowlabs_org_gca_backend_client_Client_staticServerSync(c *Client, gcas GCAServer, gcasKey glow.PublicKey, gcaKey glow.PublicKey) (uint32, [504]byte, glow.PublicKey, uint32, []server.AuthorizedServer, error) {
	name := verifSyncNames[verifSyncCalls]
	verifSyncCalls++
	var bitfield [504]byte
	if verifBool(name + ".fails") {
		return 0, bitfield, glow.PublicKey{}, 0, nil, errors.New("sync failed")
	}
	verifHavoc(&bitfield, name+".bitfield")
	var newGCA glow.PublicKey
	if verifBool(name + ".migrates") {
		verifHavoc(&newGCA, name+".newGCA")
	}
	servers := make([]server.AuthorizedServer, 1)
	verifHavoc(&servers[0].PublicKey, name+".srvKey")
	servers[0].Banned = verifBool(name + ".srvBanned")
	servers[0].Location = verifStr(name+".srvLoc", 2)
	servers[0].TcpPort = verifU16(name + ".srvTcp")
	n := verifInt(name + ".servers")
	verifAssume(n >= 0 && n <= 1)
	servers = servers[:n]
	// the resend loop after a successful sync is C08's subject: keep it to one slot here
	return verifSyncOffsetEqualsLatest, bitfield, newGCA, verifU32(name + ".newShortID"), servers, nil
}

func verifMuFree(c *Client) bool {
	if verifSymbolic() {
		return verifLocksHeld() == 0
	}
	if c.mu.TryLock() {
		c.mu.Unlock()
		return true
	}
	return false
}

func verifH_C11_sync_round() {
	verifEnableModel("Client_staticServerSync")
	c := verifSyncClient()
	c.staticHistoryOffset = 0
	k1, _ := verifKeyPair("srv1")
	k2, _ := verifKeyPair("srv2")
	verifAssume(k1 != k2)
	b1, b2 := verifBool("banned1"), verifBool("banned2")
	two := verifBool("two_servers")
	c.gcaServers[k1] = GCAServer{Banned: b1, Location: "127.0.0.1", TcpPort: 1}
	if two {
		c.gcaServers[k2] = GCAServer{Banned: b2, Location: "127.0.0.1", TcpPort: 1}
	}
	c.primaryServer = k1
	verifTgBudget(100)
	latest := verifU32("latest")
	verifSyncOffsetEqualsLatest = latest
	hp := filepath.Join(c.staticBaseDir, HistoryFile)
	if err := os.WriteFile(hp, []byte{0, 0, 0, 0}, 0644); err != nil {
		panic(err)
	}
	verifAssume(c.loadHistory() == nil)

	ok := c.threadedSyncWithServer(latest)
	_ = ok

	verifAssert(verifMuFree(c), "no_lock_held_when_sync_attempt_returns")
	// knowledge that a server is banned is never lost
	if b1 {
		s, present := c.gcaServers[k1]
		verifAssert(!present || s.Banned, "ban_of_server1_not_lost")
	}
	// a server known to be banned is never selected
	if c.primaryServer == k2 && two {
		verifAssert(!b2, "banned_server_never_selected")
	}
	verifReach("end")
}
