//go:build verif

package client

import (
	"encoding/binary"
	"errors"
	"os"
	"path/filepath"
	"time"

	"github.com/glowlabs-org/gca-backend/server"

	"github.com/glowlabs-org/gca-backend/glow"
)

func verifSyncClient() *Client {
	c := &Client{staticBaseDir: verifTempDir()}
	c.EventLog = glow.NewEventLogger(time.Hour, 1000, 100)
	verifHavoc(&c.staticPubKey, "ownKey")
	verifHavoc(&c.gcaPubKey, "gcaKey")
	c.shortID = verifU32("shortID")
	c.gcaServers = make(map[glow.PublicKey]GCAServer)
	return c
}

// In the panic-freedom harnesses every call of glow.Verify returns an arbitrary
// boolean (a superset of every real behaviour, including a rogue authorized
// server that signs arbitrary replies). Symbolic execution only; the native
// replay below signs for real instead.
var verifVerifyAccepts bool // the long-reply harness: every signature verifies

// the authenticity harness records every signature check the client makes
type verifVerifyCall struct {
	pk   glow.PublicKey
	sig  glow.Signature
	data []byte
	ok   bool
}

var verifVerifyRecord bool
var verifVerifyLog []verifVerifyCall

func verifStub_github_com_glowlabs_org_gca_backend_glow_Verify(pk glow.PublicKey, data []byte, sig glow.Signature) bool {
	if verifVerifyAccepts {
		return true
	}
	r := verifFreshBool()
	if verifVerifyRecord {
		verifVerifyLog = append(verifVerifyLog, verifVerifyCall{pk: pk, sig: sig, data: data, ok: r})
	}
	return r
}

// verifAuthenticate (native replay only): stamps the reply with the current
// time and the contacted server's real signature, so that the outer checks of
// staticServerSync pass and the code behind them is reached.
func verifAuthenticate(stream []byte, priv glow.PrivateKey) {
	verifAuthenticateAt(stream, priv, uint64(time.Now().Unix()))
}

func verifAuthenticateAt(stream []byte, priv glow.PrivateKey, t uint64) {
	if len(stream) < 2+72 {
		return
	}
	n := int(stream[0]) | int(stream[1])<<8
	if n < 72 || n > len(stream)-2 {
		return
	}
	body := stream[2 : 2+n]
	binary.LittleEndian.PutUint64(body[n-72:], t)
	sig := glow.Sign(body[:n-64], priv)
	copy(body[n-64:], sig[:])
}

// C11 (1): whatever bytes the contacted server sends (length prefix included),
// staticServerSync returns without panicking. Verify is uninterpreted, so a
// rogue authorized server that signs arbitrary replies is included.
func verifH_C11_sync_reply_never_panics() {
	verifEnableModel("glow_Verify")
	c := verifSyncClient()
	stream := verifBytesBig("stream", verifTier(2+816, 2+1024))
	gcasKey, gcasPriv := verifKeyPair("server")
	if !verifSymbolic() {
		verifAuthenticate(stream, gcasPriv)
	}
	loc, port := verifServe(stream, false)
	_, _, _, _, _, err := c.staticServerSync(GCAServer{Location: loc, TcpPort: port}, gcasKey, c.gcaPubKey)
	_ = err
	verifReach("end")
}

// ---- the sync round: locking, server selection, ban monotonicity ----
//
// Symbolically, staticServerSync is replaced by a model with any outcome its
// caller can see (its own conditions are the subject of the C10 harnesses);
// the model also carries the selection obligations, because it observes which
// server the round contacts. Natively (replay) every known server is a real
// listener that signs the scripted reply with its own key.

type verifRoundReply struct {
	offset     uint32
	bitfield   [504]byte
	newGCA     glow.PublicKey
	newShortID uint32
	servers    []server.AuthorizedServer
}

var verifSyncCalls int
var verifSyncFailFirst int // the first so many attempts fail
var verifRound verifRoundReply
var verifFailedKeys [6]glow.PublicKey

func verifStub_github_com_glowlabs_org_gca_backend_client_Client_staticServerSync(c *Client, gcas GCAServer, gcasKey glow.PublicKey, gcaKey glow.PublicKey) (uint32, [504]byte, glow.PublicKey, uint32, []server.AuthorizedServer, error) {
	idx := verifSyncCalls
	verifSyncCalls++
	known, present := c.gcaServers[gcasKey]
	verifAssert(present, "contacted_server_is_in_the_list")
	verifAssert(!known.Banned, "server_known_to_be_banned_is_never_contacted")
	for j := 0; j < idx; j++ {
		verifAssert(verifFailedKeys[j] != gcasKey, "failed_server_not_retried_in_the_same_round")
	}
	verifAssert(verifLocksHeld() == 0, "no_lock_held_during_network_io")
	if idx < verifSyncFailFirst {
		verifFailedKeys[idx] = gcasKey
		return 0, [504]byte{}, glow.PublicKey{}, 0, nil, errors.New("sync failed")
	}
	r := verifRound
	return r.offset, r.bitfield, r.newGCA, r.newShortID, r.servers, nil
}

func verifMuFree(c *Client) bool {
	if verifSymbolic() {
		return verifLocksHeld() == 0
	}
	if c.mu.TryLock() {
		c.mu.Unlock()
		return true
	}
	return false
}

// verifServeSigned (native): a listener that answers every sync request with
// body, stamped with the current time and signed by priv.
func verifServeSigned(body []byte, priv glow.PrivateKey, refuse bool) uint16 {
	stream := make([]byte, 2+len(body))
	stream[0], stream[1] = byte(len(body)), byte(len(body)>>8)
	copy(stream[2:], body)
	verifAuthenticate(stream, priv)
	_, port := verifServe(stream, refuse)
	return port
}

// verifReplyBody lays a reply out as documented (DESIGN.md appendix A.3), with real signatures.
func verifReplyBody(own glow.PublicKey, r verifRoundReply, gcaPriv glow.PrivateKey) []byte {
	b := make([]byte, 0, 1024)
	b = append(b, own[:]...)
	b = binary.LittleEndian.AppendUint32(b, r.offset)
	b = append(b, r.bitfield[:]...)
	mig := len(b)
	b = append(b, r.newGCA[:]...)
	b = binary.LittleEndian.AppendUint32(b, r.newShortID)
	for _, as := range r.servers {
		b = append(b, as.Serialize()...)
	}
	sb := append([]byte("EquipmentMigration"), own[:]...)
	sb = append(sb, b[mig:]...)
	sig := glow.Sign(sb, gcaPriv)
	b = append(b, sig[:]...)
	b = append(b, make([]byte, 72)...)
	return b
}

type verifRoundSetup struct {
	c                *Client
	k1, k2           glow.PublicKey
	p1, p2           glow.PrivateKey
	gcaPriv          glow.PrivateKey
	two, b1, b2      bool
	e1, e2           GCAServer
}

func verifRoundClient() *verifRoundSetup {
	u := &verifRoundSetup{}
	c := &Client{staticBaseDir: verifTempDir()}
	c.EventLog = glow.NewEventLogger(time.Hour, 1000, 100)
	// Key bytes are only ever compared, copied and used as map keys by the
	// code of the round, so the symbolic run fixes distinct constants (it
	// keeps every map membership concrete); the native replay uses real keys.
	if verifSymbolic() {
		c.staticPubKey, c.gcaPubKey = glow.PublicKey{9}, glow.PublicKey{8}
		u.k1, u.k2 = glow.PublicKey{1}, glow.PublicKey{2}
		verifBound("keys", "distinct constants in the symbolic run (the round only compares and copies key bytes)")
	} else {
		c.staticPubKey, _ = verifKeyPair("own")
		c.gcaPubKey, u.gcaPriv = verifKeyPair("gca")
		u.k1, u.p1 = verifKeyPair("srv1")
		u.k2, u.p2 = verifKeyPair("srv2")
	}
	c.shortID = verifU32("shortID")
	c.gcaServers = make(map[glow.PublicKey]GCAServer)
	cfg := verifCase("known_servers", 0, 7)
	u.two, u.b1, u.b2 = cfg&1 != 0, cfg&2 != 0, cfg&4 != 0
	u.c = c
	hp := filepath.Join(c.staticBaseDir, HistoryFile)
	if err := os.WriteFile(hp, []byte{0, 0, 0, 0}, 0644); err != nil {
		panic(err)
	}
	verifAssume(c.loadHistory() == nil)
	verifTgBudget(100)
	return u
}

// install puts the known servers into the client's list; natively each is a real listener.
func (u *verifRoundSetup) install(body []byte, refuse bool) {
	port1, port2 := uint16(1), uint16(1)
	if !verifSymbolic() {
		port1 = verifServeSigned(body, u.p1, refuse)
		port2 = verifServeSigned(body, u.p2, refuse)
	}
	u.e1 = GCAServer{Banned: u.b1, Location: "127.0.0.1", TcpPort: port1, UdpPort: 9}
	u.e2 = GCAServer{Banned: u.b2, Location: "127.0.0.1", TcpPort: port2, UdpPort: 9}
	u.c.gcaServers[u.k1] = u.e1
	if u.two {
		u.c.gcaServers[u.k2] = u.e2
	}
	u.c.primaryServer = u.k1
	// the pre-state is one a restart would produce: the list on disk is the list in memory
	raw, err := SerializeGCAServerMap(u.c.gcaServers)
	if err != nil {
		panic(err)
	}
	if err := os.WriteFile(filepath.Join(u.c.staticBaseDir, GCAServerMapFile), raw, 0644); err != nil {
		panic(err)
	}
}

// C11 (2),(3),(5): every outcome pattern of the five attempts, for every
// configuration of known servers (one or two; banned or not): no lock is held
// when the round returns, a server known to be banned (or one that already
// failed in this round) is never contacted, nothing is held during network
// I/O. Natively "fails" is a closed port.
func verifH_C11_sync_round_failures() {
	verifEnableModel("Client_staticServerSync")
	u := verifRoundClient()
	c := u.c
	verifSyncFailFirst = verifCase("failing_attempts", 0, 5)
	latest := verifU32("latest")
	verifRound = verifRoundReply{offset: latest}
	for i := range verifRound.bitfield {
		verifRound.bitfield[i] = 0xff
	}
	var body []byte
	if !verifSymbolic() {
		body = verifReplyBody(c.staticPubKey, verifRound, u.gcaPriv)
	}
	// natively a server either always answers or always refuses
	u.install(body, verifSyncFailFirst > 0)
	pubBefore, idBefore := c.gcaPubKey, c.shortID

	ok := c.threadedSyncWithServer(latest)

	verifAssert(verifMuFree(c), "no_lock_held_when_sync_attempt_returns")
	if verifSymbolic() {
		usable := 0
		if !u.b1 {
			usable++
		}
		if u.two && !u.b2 {
			usable++
		}
		verifAssert(ok == (verifSyncFailFirst < usable && verifSyncFailFirst < 5), "round_succeeds_iff_a_usable_server_answers")
		verifAssert(verifSyncCalls <= 5, "at_most_five_attempts")
	}
	s1, p1 := c.gcaServers[u.k1]
	verifAssert(p1 && s1 == u.e1, "known_server_entry_unchanged_by_empty_reply")
	verifAssert(c.gcaPubKey == pubBefore && c.shortID == idBefore, "identity_unchanged_without_migration")
	verifReach("end")
}

// C11 (4) / C17 (client): what a successful reply may do to the client's list
// and identity. The reply lists no server, a server the client already knows
// (first or second), or a new one; with and without a migration order.
func verifH_C11_sync_round_merge() {
	verifEnableModel("Client_staticServerSync")
	u := verifRoundClient()
	c := u.c
	verifSyncFailFirst = 0
	latest := verifU32("latest")
	r := verifRoundReply{offset: latest}
	for i := range r.bitfield {
		r.bitfield[i] = 0xff
	}
	listed := verifCase("listed_server", 0, 3)
	migration := verifCase("migration", 0, 1) == 1
	signer := u.gcaPriv
	if migration {
		if verifSymbolic() {
			r.newGCA = glow.PublicKey{7}
		} else {
			r.newGCA, signer = verifKeyPair("newGCA")
		}
		r.newShortID = verifU32("newShortID")
	}
	var lk glow.PublicKey
	if listed > 0 {
		as := server.AuthorizedServer{Banned: verifCase("listed_banned", 0, 1) == 1, Location: string(verifBytesN("listed_location", 2)),
			HttpPort: verifU16("listed_http"), TcpPort: verifU16("listed_tcp"), UdpPort: verifU16("listed_udp")}
		switch listed {
		case 1:
			as.PublicKey = u.k1
		case 2:
			as.PublicKey = u.k2
		default:
			if verifSymbolic() {
				as.PublicKey = glow.PublicKey{3}
			} else {
				as.PublicKey, _ = verifKeyPair("srv3")
			}
		}
		lk = as.PublicKey
		if !verifSymbolic() {
			as.GCAAuthorization = glow.Sign(as.SigningBytes(), signer)
		}
		r.servers = []server.AuthorizedServer{as}
	}
	verifRound = r
	var body []byte
	if !verifSymbolic() {
		body = verifReplyBody(c.staticPubKey, r, u.gcaPriv)
	}
	u.install(body, false)
	usable := !u.b1 || (u.two && !u.b2)
	pubBefore, idBefore := c.gcaPubKey, c.shortID

	ok := c.threadedSyncWithServer(latest)

	verifAssert(verifMuFree(c), "no_lock_held_when_sync_attempt_returns")
	verifAssert(ok == usable, "round_succeeds_iff_a_usable_server_exists")
	if !ok {
		verifReach("no_usable_server")
		return
	}
	var want GCAServer
	if listed > 0 {
		as := r.servers[0]
		want = GCAServer{Banned: as.Banned, Location: as.Location, HttpPort: as.HttpPort, TcpPort: as.TcpPort, UdpPort: as.UdpPort}
	}
	s1, p1 := c.gcaServers[u.k1]
	s2, p2 := c.gcaServers[u.k2]
	if !migration {
		verifAssert(c.gcaPubKey == pubBefore && c.shortID == idBefore, "identity_unchanged_without_migration")
		// an existing entry is never altered except to become banned
		if listed == 1 && want.Banned {
			verifAssert(p1 && s1 == want, "listed_ban_of_known_server_is_adopted")
		} else {
			verifAssert(p1 && s1 == u.e1, "known_server_entry_unchanged")
		}
		if u.two {
			if listed == 2 && want.Banned {
				verifAssert(p2 && s2 == want, "listed_ban_of_known_server_is_adopted")
			} else {
				verifAssert(p2 && s2 == u.e2, "known_server_entry_unchanged")
			}
		}
		if u.b1 {
			verifAssert(p1 && s1.Banned, "knowledge_of_a_ban_is_never_lost")
		}
		if u.two && u.b2 {
			verifAssert(p2 && s2.Banned, "knowledge_of_a_ban_is_never_lost")
		}
		if listed == 3 || (listed == 2 && !u.two) {
			s3, p3 := c.gcaServers[lk]
			verifAssert(p3 && s3 == want, "new_server_enters_as_listed")
		}
		n := 1
		if u.two {
			n++
		}
		if listed == 3 || (listed == 2 && !u.two) {
			n++
		}
		verifAssert(len(c.gcaServers) == n, "nothing_else_enters_the_list")
	} else {
		verifAssert(c.gcaPubKey == r.newGCA && c.shortID == r.newShortID, "migration_adopts_the_new_identity")
		n := 0
		if listed > 0 {
			n = 1
			s3, p3 := c.gcaServers[lk]
			verifAssert(p3 && s3 == want, "migration_adopts_exactly_the_listed_servers")
		}
		verifAssert(len(c.gcaServers) == n, "migration_adopts_exactly_the_listed_servers")
		// what is on disk is what was adopted
		pk, err := os.ReadFile(filepath.Join(c.staticBaseDir, GCAPubKeyFile))
		verifAssert(err == nil && len(pk) == 32 && glow.PublicKey(pk) == r.newGCA, "persisted_gca_key_is_the_adopted_one")
		id, err := os.ReadFile(filepath.Join(c.staticBaseDir, ShortIDFile))
		verifAssert(err == nil && len(id) == 4 && binary.LittleEndian.Uint32(id) == r.newShortID, "persisted_short_id_is_the_adopted_one")
	}
	// the persisted list, read back the way a restart reads it, is the adopted list
	raw, err := os.ReadFile(filepath.Join(c.staticBaseDir, GCAServerMapFile))
	verifAssert(err == nil, "server_list_is_persisted")
	back, err := UntrustedDeserializeGCAServerMap(raw)
	verifAssert(err == nil, "persisted_server_list_decodes")
	verifAssert(len(back) == len(c.gcaServers), "persisted_server_list_has_the_adopted_entries")
	d1, q1 := back[u.k1]
	d2, q2 := back[u.k2]
	verifAssert(q1 == p1 && (!p1 || d1 == s1), "persisted_entry_equals_adopted_entry")
	verifAssert(q2 == p2 && (!p2 || d2 == s2), "persisted_entry_equals_adopted_entry")
	if listed == 3 {
		d3, q3 := back[lk]
		s3, p3 := c.gcaServers[lk]
		verifAssert(q3 == p3 && (!p3 || d3 == s3), "persisted_entry_equals_adopted_entry")
	}
	verifReach("end")
}
