//go:build verif

package client

import (
	"os"
	"path/filepath"
)

// C09: the history store. An arbitrary existing history file (length a
// multiple of 4, at least the 4-byte origin), arbitrary timeslots and values.

func verifClientWithHistory(name string, max int) *Client {
	c := &Client{staticBaseDir: verifTempDir()}
	path := filepath.Join(c.staticBaseDir, HistoryFile)
	verifFileHavoc(path, name, max)
	// well-formedness of a history file: 4-byte origin followed by 4-byte slots
	// (every write the client makes is 4 bytes at a 4-aligned offset, so this is inductive)
	raw, rerr := os.ReadFile(path)
	verifAssume(rerr == nil && len(raw) >= 4 && len(raw)%4 == 0)
	err := c.loadHistory()
	verifAssume(err == nil)
	return c
}

func verifReadSlotBytes(c *Client, off int64) (uint32, bool) {
	var b [4]byte
	n, _ := c.staticHistoryFile.ReadAt(b[:], off)
	if n != 4 {
		return 0, false
	}
	return uint32(b[0]) | uint32(b[1])<<8 | uint32(b[2])<<16 | uint32(b[3])<<24, true
}

func verifH_C09_save_then_load() {
	c := verifClientWithHistory("hist", 24)
	origin := c.staticHistoryOffset
	t := verifU32("t")
	v := verifU32("v")
	t2 := verifU32("t2")
	verifAssume(t2 != t)
	before2, errB := c.staticLoadReading(t2)
	before, _ := c.staticLoadReading(t)

	err := c.staticSaveReading(t, v)

	after, errA := c.staticLoadReading(t)
	after2, errA2 := c.staticLoadReading(t2)
	if t < origin {
		verifAssert(err != nil, "before_origin_refused")
		verifAssert(after == 0 && errA == nil, "before_origin_reads_zero")
	}
	if err == nil {
		verifAssert(after == v && errA == nil, "saved_value_is_read_back")
		// placement is exact over the integers
		pos := 4 * (1 + int64(t) - int64(origin))
		if v != 0 {
			got, ok := verifReadSlotBytes(c, pos)
			verifAssert(ok && got == v, "stored_at_exact_offset")
		}
	} else {
		verifAssert(after == before, "failed_save_changes_nothing")
	}
	if before != 0 && v != before {
		verifAssert(err != nil && after == before, "never_overwritten_by_a_different_value")
	}
	if errB == nil {
		verifAssert(errA2 == nil && after2 == before2, "other_slots_untouched")
	}
	verifReach("end")
}
