//go:build verif

package client

import (
	"encoding/binary"
	"errors"
	"io"
	"net"
	"time"

	"github.com/glowlabs-org/gca-backend/glow"
)

// Model of encoding/binary.Read for the operand types the client decodes
// (the library takes its reflection path for named array types). Symbolic
// execution only; the native replay runs the library.
func verifStub_encoding_binary_Read(r io.Reader, order binary.ByteOrder, data any) error {
	switch d := data.(type) {
	case *glow.PublicKey:
		_, err := io.ReadFull(r, d[:])
		return err
	case *uint16:
		var b [2]byte
		if _, err := io.ReadFull(r, b[:]); err != nil {
			return err
		}
		*d = order.Uint16(b[:])
		return nil
	case *uint32:
		var b [4]byte
		if _, err := io.ReadFull(r, b[:]); err != nil {
			return err
		}
		*d = order.Uint32(b[:])
		return nil
	case *uint64:
		var b [8]byte
		if _, err := io.ReadFull(r, b[:]); err != nil {
			return err
		}
		*d = order.Uint64(b[:])
		return nil
	}
	panic("verif: binary.Read operand type not modelled")
}

// Ghost network for the client: net.Dial is redirected (symbolically) to
// verifStub_net_Dial, which hands out a scripted connection. Natively the same
// script is served by a real TCP listener on 127.0.0.1.

type verifConn struct {
	in     []byte // what the peer sends
	pos    int
	out    []byte // what the client wrote
	closed bool
}

func (c *verifConn) Read(b []byte) (int, error) {
	if c.pos >= len(c.in) {
		return 0, io.EOF
	}
	n := copy(b, c.in[c.pos:])
	c.pos += n
	return n, nil
}
func (c *verifConn) Write(b []byte) (int, error) {
	c.out = append(c.out, b...)
	return len(b), nil
}
func (c *verifConn) Close() error                       { c.closed = true; return nil }
func (c *verifConn) LocalAddr() net.Addr                { return nil }
func (c *verifConn) RemoteAddr() net.Addr               { return nil }
func (c *verifConn) SetDeadline(t time.Time) error      { return nil }
func (c *verifConn) SetReadDeadline(t time.Time) error  { return nil }
func (c *verifConn) SetWriteDeadline(t time.Time) error { return nil }

var verifPeerReply []byte  // bytes the contacted server sends back
var verifPeerRefuses bool  // dial fails
var verifDials int

func verifStub_net_Dial(network, address string) (net.Conn, error) {
	verifDials++
	if verifPeerRefuses {
		return nil, errors.New("connection refused")
	}
	return &verifConn{in: verifPeerReply}, nil
}

// verifServe makes reply the answer of the next sync attempt and returns the
// (location, tcp port) the client has to dial.
func verifServe(reply []byte, refuse bool) (string, uint16) {
	if verifSymbolic() {
		verifPeerReply = reply
		verifPeerRefuses = refuse
		return "ghost", 1
	}
	l, err := net.Listen("tcp", "127.0.0.1:0")
	if err != nil {
		panic(err)
	}
	port := uint16(l.Addr().(*net.TCPAddr).Port)
	if refuse {
		l.Close()
		return "127.0.0.1", port
	}
	go func() {
		defer l.Close()
		for {
			conn, err := l.Accept()
			if err != nil {
				return
			}
			buf := make([]byte, 4)
			io.ReadFull(conn, buf)
			conn.Write(reply)
			conn.Close()
		}
	}()
	return "127.0.0.1", port
}
