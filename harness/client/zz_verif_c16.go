//go:build verif

package client

import (
	"os"
	"path"
	"strings"
	"time"

	"github.com/glowlabs-org/gca-backend/glow"
)

// C16: every row shape the csv reader can hand over (1..3 fields, first field
// parseable as int64 or not, second as float64 or not), arbitrary calibration.

var verifTsNames = []string{"ts0", "ts1", "ts2"}
var verifENames = []string{"e0", "e1", "e2"}
var verifColNames = []string{"cols0", "cols1", "cols2"}

func verifEnergyClient() *Client {
	c := &Client{staticBaseDir: verifTempDir()}
	c.EventLog = glow.NewEventLogger(time.Hour, 1000, 100)
	c.energyMultiplier = verifF64("mult")
	c.energyDivider = verifF64("div")
	return c
}

func verifH_C16_rows() {
	c := verifEnergyClient()
	nrows := verifCase("rows", 0, verifTier(2, 3))
	var ts [3]int64
	var tsOK, eOK [3]bool
	var ev [3]float64
	var cols [3]int
	records := make([][]string, nrows)
	for i := 0; i < nrows; i++ {
		cols[i] = verifCase(verifColNames[i], 1, 3)
		rec := make([]string, cols[i])
		// timestamps are expressed relative to genesis (a variable in test builds)
		ts[i] = int64(glow.GenesisTime) + verifI64(verifTsNames[i]+".delta")
		rec[0] = verifIntTokenOf(verifTsNames[i], ts[i])
		tsOK[i] = verifBool(verifTsNames[i] + ".ok")
		if cols[i] > 1 {
			ev[i] = verifF64(verifENames[i] + ".val")
			rec[1] = verifFloatTokenOf(verifENames[i], ev[i])
			eOK[i] = verifBool(verifENames[i] + ".ok")
			verifAssume(eOK[i] || ev[i] == 0) // ParseFloat's (0, err) contract for an unparseable token
		}
		if cols[i] > 2 {
			rec[2] = "z"
		}
		records[i] = rec
	}
	verifGhostSet("csv", records)
	text := ""
	if !verifSymbolic() {
		for _, r := range records {
			text += strings.Join(r, ",") + "\n"
		}
	}
	if err := os.WriteFile(path.Join(c.staticBaseDir, EnergyFile), []byte(text), 0644); err != nil {
		panic(err)
	}

	got, err := c.staticReadEnergyFile()
	verifAssert(err == nil, "readable_file_gives_no_error")

	// oracle
	g := int64(glow.GenesisTime)
	k := 0
	for i := 0; i < nrows; i++ {
		if cols[i] != cols[0] {
			break // csv stops at the first row with a different field count
		}
		if !tsOK[i] || ts[i] < g {
			continue // unusable timestamp: row skipped
		}
		verifAssume(ts[i]-g <= 0xFFFFFFFF) // bound shared with C20
		if cols[i] < 2 {
			continue // no reading column: must be skipped (or refused), never a crash
		}
		verifAssert(k < len(got), "row_yields_a_record")
		if k >= len(got) {
			break
		}
		// shape of glow.UnixToTimeslot; C20 proves that this equals floor((t-G)/300) over the integers
		verifAssert(got[k].Timeslot == uint32(ts[i]-g)/300, "slot_contains_timestamp")
		switch {
		case !eOK[i]:
			verifAssert(got[k].Energy == 3, "unparseable_reading_is_3")
		case ev[i] > -24 && ev[i] < 24:
			verifAssert(got[k].Energy == 2, "small_magnitude_is_2")
		default:
			scaled := c.energyMultiplier * ev[i] / c.energyDivider
			inRange := scaled > -9223372036854775808.0 && scaled < 9223372036854775808.0
			verifAssert(!inRange || got[k].Energy == uint64(int64(scaled)), "scaled_truncated_twos_complement")
		}
		k++
	}
	verifAssert(len(got) == k, "no_extra_records")
	verifReach("end")
}

var verifCalibrations = [][2]float64{{-2000, 1000}, {1000, 1000}, {-2000, 908}, {1, 3}}

// C16 (value rule, precise): for fixed calibration pairs - two with an exact
// ratio, two whose ratio is not representable - the value of a single
// well-formed row is the reading scaled as (multiplier * reading) / divider in
// IEEE double arithmetic, truncated toward zero, for every reading.
func verifH_C16_value_rule_fixed_calibration() {
	c := &Client{staticBaseDir: verifTempDir()}
	c.EventLog = glow.NewEventLogger(time.Hour, 1000, 100)
	cal := verifCalibrations[verifCase("calibration", 0, 3)]
	c.energyMultiplier, c.energyDivider = cal[0], cal[1]
	ts := int64(glow.GenesisTime) + 600
	e := verifF64("e.val")
	verifAssume(e >= 24 && e < 1e12)
	rec := []string{verifIntTokenOf("ts", ts), verifFloatTokenOf("e", e)}
	verifAssume(verifBool("ts.ok") && verifBool("e.ok"))
	verifGhostSet("csv", [][]string{rec})
	text := ""
	if !verifSymbolic() {
		text = strings.Join(rec, ",") + "\n"
	}
	if err := os.WriteFile(path.Join(c.staticBaseDir, EnergyFile), []byte(text), 0644); err != nil {
		panic(err)
	}
	got, err := c.staticReadEnergyFile()
	verifAssert(err == nil && len(got) == 1, "row_yields_a_record")
	if err != nil || len(got) != 1 {
		return
	}
	scaled := cal[0] * e / cal[1]
	verifAssert(got[0].Energy == uint64(int64(scaled)), "scaled_truncated_twos_complement")
	verifReach("end")
}
