//go:build verif

package client

import (
	"encoding/binary"

	"github.com/glowlabs-org/gca-backend/glow"
	"github.com/glowlabs-org/gca-backend/server"
)

// Reference layout of one server entry inside a sync reply (DESIGN.md
// appendix A.3), written independently of server.AuthorizedServer.Serialize.
func verifRefEntryBody(as server.AuthorizedServer) []byte {
	b := make([]byte, 0, 48+len(as.Location))
	b = append(b, as.PublicKey[:]...)
	var ban byte
	if as.Banned {
		ban = 1
	}
	b = append(b, ban, byte(len(as.Location)))
	b = append(b, as.Location...)
	b = binary.LittleEndian.AppendUint16(b, as.HttpPort)
	b = binary.LittleEndian.AppendUint16(b, as.TcpPort)
	b = binary.LittleEndian.AppendUint16(b, as.UdpPort)
	return b
}

func verifRefEntrySigningBytes(as server.AuthorizedServer) []byte {
	return append([]byte("AuthorizedServer"), verifRefEntryBody(as)...)
}

// verifGenuineReply lays out a complete reply (without the 2-byte length
// prefix) as documented: device key, window offset, bitfield, new GCA, new
// short id, server entries, GCA signature over the migration bytes, unix time,
// signature of the answering server over everything before it.
func verifGenuineReply(own glow.PublicKey, r verifRoundReply, gcaPriv glow.PrivateKey, t uint64, srvPriv glow.PrivateKey) []byte {
	b := make([]byte, 0, 2048)
	b = append(b, own[:]...)
	b = binary.LittleEndian.AppendUint32(b, r.offset)
	b = append(b, r.bitfield[:]...)
	mig := len(b)
	b = append(b, r.newGCA[:]...)
	b = binary.LittleEndian.AppendUint32(b, r.newShortID)
	for _, as := range r.servers {
		b = append(b, verifRefEntryBody(as)...)
		b = append(b, as.GCAAuthorization[:]...)
	}
	sb := append([]byte("EquipmentMigration"), own[:]...)
	sb = append(sb, b[mig:]...)
	gsig := glow.Sign(sb, gcaPriv)
	b = append(b, gsig[:]...)
	b = binary.LittleEndian.AppendUint64(b, t)
	ssig := glow.Sign(b, srvPriv)
	b = append(b, ssig[:]...)
	return b
}

var verifLocLens = []int{0, 3, 255}
var verifSrvNames = []string{"srv0", "srv1", "srv2"}

// C10 (agreement, client half): every genuine reply - any window offset and
// bitfield, 0..2 listed servers with locations of 0, 3 or (for at most one server) 255 bytes and any
// ban flags and ports, with or without a migration order, stamped anywhere
// inside the 24-hour window - is accepted and parses to exactly the data it
// was built from. (The server half shows that the server's reply has this
// layout: verifH_C10_server_reply_layout.)
func verifH_C10_genuine_reply_parses() {
	c := verifSyncClient()
	gcaPub, gcaPriv := verifKeyPair("gca")
	c.gcaPubKey = gcaPub
	gcasKey, gcasPriv := verifKeyPair("server")
	now := verifI64("now")
	verifAssume(now >= 86400 && now < 1<<40)
	verifSetNowUnix(now)
	delta := verifI64("delta")
	verifAssume(delta >= -86400 && delta <= 86400)

	var r verifRoundReply
	r.offset = verifU32("offset")
	verifHavoc(&r.bitfield, "bitfield")
	signer := gcaPriv
	if verifCase("migration", 0, 1) == 1 {
		var np glow.PrivateKey
		r.newGCA, np = verifKeyPair("newgca")
		verifAssume(r.newGCA != glow.PublicKey{})
		r.newShortID = verifU32("newShortID")
		signer = np
	}
	n := verifCase("listed_servers", 0, 2)
	ll := verifLocLens[verifCase("location_length", 0, 2)]
	if n == 2 && ll == 255 {
		return // two long locations: verifH_C10_long_reply_parses (with symbolic entry contents a parser defect makes every offset symbolic)
	}
	r.servers = make([]server.AuthorizedServer, n)
	for i := range r.servers {
		as := &r.servers[i]
		verifHavoc(&as.PublicKey, verifSrvNames[i]+".key")
		as.Banned = verifBool(verifSrvNames[i] + ".banned")
		if ll <= 3 {
			as.Location = string(verifBytesN(verifSrvNames[i]+".loc", ll))
		} else {
			// long locations carry fixed content (the parser only copies
			// location bytes; fixed content keeps every offset concrete
			// even when a defect makes the parser read lengths from them)
			lb := make([]byte, ll)
			for k := range lb {
				lb[k] = byte('a' + k%26)
			}
			as.Location = string(lb)
		}
		as.HttpPort, as.TcpPort, as.UdpPort = verifU16(verifSrvNames[i]+".http"), verifU16(verifSrvNames[i]+".tcp"), verifU16(verifSrvNames[i]+".udp")
		as.GCAAuthorization = glow.Sign(verifRefEntrySigningBytes(*as), signer)
	}
	body := verifGenuineReply(c.staticPubKey, r, gcaPriv, uint64(now+delta), gcasPriv)
	stream := make([]byte, 2, 2+len(body))
	binary.LittleEndian.PutUint16(stream, uint16(len(body)))
	stream = append(stream, body...)
	loc, port := verifServe(stream, false)

	off, bf, newGCA, newID, servers, err := c.staticServerSync(GCAServer{Location: loc, TcpPort: port}, gcasKey, c.gcaPubKey)

	verifAssert(err == nil, "genuine_reply_is_accepted")
	if err != nil {
		return
	}
	verifAssert(off == r.offset, "window_offset_parses_to_the_servers")
	verifAssert(bf == r.bitfield, "bitfield_parses_to_the_servers")
	verifAssert(newGCA == r.newGCA && newID == r.newShortID, "migration_fields_parse_to_the_servers")
	verifAssert(len(servers) == n, "server_list_parses_to_the_servers")
	for i := 0; i < n && i < len(servers); i++ {
		verifAssert(servers[i] == r.servers[i], "server_entry_parses_to_the_servers")
	}
	verifReach("end")
}

// (Not registered: the obligations of this variant do not finish within the
// per-harness solving budget - see DESIGN.md, C10. The registered authenticity
// check is verifH_C10_tampered_reply_rejected.)
// C10 (authenticity): whatever bytes arrive, a reply is accepted only if the
// client checked - and the check came back valid - the contacted server's
// signature over everything before it, the current GCA's signature over the
// documented migration bytes when a new GCA is named, and for every returned
// server entry a signature under the GCA that will own it; it is stamped
// within 24 hours of the client's clock and bound to the client's own key;
// every returned field is read from inside the signed range. The signature
// primitive is replaced by a recorder that answers arbitrarily (a superset of
// every real behaviour, forgeries included), so "accepted" implies the listed
// checks whatever the primitive does.
func verifX_C10_reply_authenticity_by_recording() {
	verifEnableModel("glow_Verify")
	verifVerifyRecord = true
	c := verifSyncClient()
	stream := verifBytesBig("stream", verifTier(2+816, 2+1024))
	gcasKey, _ := verifKeyPair("server")
	now := verifI64("now")
	verifAssume(now >= 86400 && now < 1<<40)
	verifSetNowUnix(now)
	loc, port := verifServe(stream, false)

	off, bf, newGCA, newID, servers, err := c.staticServerSync(GCAServer{Location: loc, TcpPort: port}, gcasKey, c.gcaPubKey)

	if err != nil {
		verifReach("rejected")
		return
	}
	verifAssert(len(stream) >= 2, "accepted_reply_has_a_length_prefix")
	n := int(stream[0]) | int(stream[1])<<8
	verifAssert(n >= 712 && len(stream) >= 2+n, "accepted_reply_is_complete")
	if n < 712 || len(stream) < 2+n {
		return
	}
	body := stream[2 : 2+n]
	k := verifInt("k") // an arbitrary position inside whatever range is being compared
	verifAssume(k >= 0)

	// the checks the client made, in order: outer, [migration], one per returned entry
	calls := verifVerifyLog
	migrating := newGCA != (glow.PublicKey{})
	want := 1 + len(servers)
	if migrating {
		want++
	}
	verifAssert(len(calls) == want, "one_signature_check_per_signed_item")
	if len(calls) != want {
		return
	}
	for i := 0; i < len(calls) && i < 6; i++ {
		verifAssert(calls[i].ok, "every_signature_check_came_back_valid")
	}
	var sig glow.Signature
	copy(sig[:], body[n-64:])
	outer := calls[0]
	verifAssert(outer.pk == gcasKey && outer.sig == sig && len(outer.data) == n-64, "outer_check_is_against_the_contacted_servers_key_over_everything_before_the_signature")
	if k < n-64 && k < len(outer.data) {
		verifAssert(outer.data[k] == body[k], "outer_check_is_against_the_contacted_servers_key_over_everything_before_the_signature")
	}
	t := binary.LittleEndian.Uint64(body[n-72:])
	verifAssert(t <= uint64(now)+86400 && t >= uint64(now)-86400, "accepted_reply_is_within_24_hours")
	var own glow.PublicKey
	copy(own[:], body[:32])
	verifAssert(own == c.staticPubKey, "accepted_reply_is_bound_to_the_own_key")
	verifAssert(off == binary.LittleEndian.Uint32(body[32:36]), "offset_is_read_from_the_signed_bytes")
	var sbf [504]byte
	copy(sbf[:], body[36:540])
	verifAssert(bf == sbf, "bitfield_is_read_from_the_signed_bytes")
	var sg glow.PublicKey
	copy(sg[:], body[540:572])
	verifAssert(newGCA == sg && newID == binary.LittleEndian.Uint32(body[572:576]), "migration_fields_are_read_from_the_signed_bytes")
	next := 1
	owner := c.gcaPubKey
	if migrating {
		owner = newGCA
		m := calls[1]
		next = 2
		var gsig glow.Signature
		copy(gsig[:], body[n-136:n-72])
		verifAssert(m.pk == c.gcaPubKey && m.sig == gsig && len(m.data) == 18+32+(n-136-540), "migration_order_is_checked_against_the_current_gca")
		prefix := "EquipmentMigration"
		if len(m.data) >= 50 {
			for i := 0; i < 18; i++ {
				verifAssert(m.data[i] == prefix[i], "migration_check_covers_the_documented_bytes")
			}
			var mk glow.PublicKey
			copy(mk[:], m.data[18:50])
			verifAssert(mk == c.staticPubKey, "migration_check_covers_the_documented_bytes")
			if k < n-136-540 && 50+k < len(m.data) {
				verifAssert(m.data[50+k] == body[540+k], "migration_check_covers_the_documented_bytes")
			}
		}
	}
	sprefix := "AuthorizedServer"
	for i := 0; i < len(servers) && i < 3; i++ {
		sc := calls[next+i]
		verifAssert(sc.pk == owner && sc.sig == servers[i].GCAAuthorization, "returned_server_is_checked_against_the_gca_that_owns_it")
		verifAssert(len(sc.data) == 16+34+len(servers[i].Location)+6, "server_check_covers_the_documented_bytes")
		if len(sc.data) >= 50 {
			for j := 0; j < 16; j++ {
				verifAssert(sc.data[j] == sprefix[j], "server_check_covers_the_documented_bytes")
			}
			var sk glow.PublicKey
			copy(sk[:], sc.data[16:48])
			verifAssert(sk == servers[i].PublicKey && (sc.data[48] != 0) == servers[i].Banned && int(sc.data[49]) == len(servers[i].Location), "server_check_covers_the_documented_bytes")
		}
	}
	if len(servers) > 0 {
		var fk glow.PublicKey
		copy(fk[:], body[576:608])
		s0 := servers[0]
		verifAssert(s0.PublicKey == fk && s0.Banned == (body[608] != 0) && len(s0.Location) == int(body[609]), "first_entry_is_read_from_the_signed_bytes")
	}
	verifReach("accepted")
}

// C10 (agreement, long replies): replies whose variable part is long - 3..6
// listed servers with 9-byte locations, or 2 with 255-byte locations - parse
// to exactly the data they were built from. Entry contents are fixed constants
// and every signature check answers "valid" in the symbolic run (real keys and
// signatures in the native replay), so that every offset stays concrete
// whatever the parser does; offset, bitfield and short id are symbolic. The
// symbolic-content harness above covers up to 2 servers.
func verifH_C10_long_reply_parses() {
	verifEnableModel("glow_Verify")
	verifVerifyAccepts = true
	c := verifSyncClient()
	gcaPub, gcaPriv := verifKeyPair("gca")
	gcasKey, gcasPriv := verifKeyPair("server")
	if verifSymbolic() {
		c.staticPubKey, gcaPub, gcasKey = glow.PublicKey{9}, glow.PublicKey{8}, glow.PublicKey{7}
	}
	c.gcaPubKey = gcaPub
	now := int64(1800000000)
	verifSetNowUnix(now)
	var r verifRoundReply
	r.offset = verifU32("offset")
	verifHavoc(&r.bitfield, "bitfield")
	shape := verifCase("shape", 0, 4) // 3, 4, 5, 6 servers with 9-byte locations; 2 servers with 255-byte locations
	n, ll := 3+shape, 9
	if shape == 4 {
		n, ll = 2, 255
	}
	r.servers = make([]server.AuthorizedServer, n)
	for i := range r.servers {
		as := &r.servers[i]
		for k := range as.PublicKey {
			as.PublicKey[k] = byte(16*(i+1) + k%16)
		}
		as.Banned = i%2 == 1
		lb := make([]byte, ll)
		for k := range lb {
			lb[k] = byte('a' + (k+i)%26)
		}
		as.Location = string(lb)
		as.HttpPort, as.TcpPort, as.UdpPort = uint16(8000+i), uint16(9000+i), uint16(10000+i)
		if verifSymbolic() {
			for k := range as.GCAAuthorization {
				as.GCAAuthorization[k] = byte(0x80 + i)
			}
		} else {
			as.GCAAuthorization = glow.Sign(verifRefEntrySigningBytes(*as), gcaPriv)
		}
	}
	var body []byte
	if verifSymbolic() {
		body = verifGenuineReplyUnsigned(c.staticPubKey, r, uint64(now))
	} else {
		body = verifGenuineReply(c.staticPubKey, r, gcaPriv, uint64(now), gcasPriv)
	}
	stream := make([]byte, 2, 2+len(body))
	binary.LittleEndian.PutUint16(stream, uint16(len(body)))
	stream = append(stream, body...)
	loc, port := verifServe(stream, false)

	off, bf, newGCA, newID, servers, err := c.staticServerSync(GCAServer{Location: loc, TcpPort: port}, gcasKey, c.gcaPubKey)

	verifAssert(err == nil, "genuine_long_reply_is_accepted")
	if err != nil {
		return
	}
	verifAssert(off == r.offset && bf == r.bitfield, "offset_and_bitfield_parse_to_the_servers")
	verifAssert(newGCA == r.newGCA && newID == r.newShortID, "migration_fields_parse_to_the_servers")
	verifAssert(len(servers) == n, "server_list_parses_to_the_servers")
	for i := 0; i < n && i < len(servers); i++ {
		verifAssert(servers[i] == r.servers[i], "server_entry_parses_to_the_servers")
	}
	verifReach("end")
}

// same layout with constant filler where the two outer signatures go
func verifGenuineReplyUnsigned(own glow.PublicKey, r verifRoundReply, t uint64) []byte {
	b := make([]byte, 0, 2048)
	b = append(b, own[:]...)
	b = binary.LittleEndian.AppendUint32(b, r.offset)
	b = append(b, r.bitfield[:]...)
	b = append(b, r.newGCA[:]...)
	b = binary.LittleEndian.AppendUint32(b, r.newShortID)
	for _, as := range r.servers {
		b = append(b, verifRefEntryBody(as)...)
		b = append(b, as.GCAAuthorization[:]...)
	}
	for k := 0; k < 64; k++ {
		b = append(b, 0x55)
	}
	b = binary.LittleEndian.AppendUint64(b, t)
	for k := 0; k < 64; k++ {
		b = append(b, 0x66)
	}
	return b
}


// C10 (authenticity): a well-structured reply in which exactly one of the
// things the client must insist on is missing is rejected, and a rejected
// reply leaves the client's state as it was. The signature in question
// consists of arbitrary bytes for which the verification the specification
// names - this key, exactly these bytes, this signature - is false; nothing
// else is assumed about the primitive, so acceptance through a check against
// any other key or over any other bytes shows up as a counterexample.
//   1: the contacted server's signature over everything before it
//   2: the time stamp within 24 hours of the client's clock (either side)
//   3: the reply names the client's own key
//   4: the current GCA's signature over "EquipmentMigration" | own key | migration bytes
//   5: an entry's signature under the GCA that will own it (current, or new when migrating)
func verifH_C10_tampered_reply_rejected() {
	c := verifSyncClient()
	gcaPub, gcaPriv := verifKeyPair("gca")
	c.gcaPubKey = gcaPub
	gcasKey, gcasPriv := verifKeyPair("server")
	now := verifI64("now")
	verifAssume(now >= 86400 && now < 1<<40)
	verifSetNowUnix(now)
	tamper := verifCase("missing", 1, 5)
	migration := verifCase("migration", 0, 1) == 1
	n := verifCase("listed_servers", 0, 1)
	if (tamper == 4 && !migration) || (tamper == 5 && n == 0) {
		return
	}
	t := uint64(now)
	if tamper == 2 {
		t = verifU64("t")
		verifAssume(t > uint64(now)+86400 || t < uint64(now)-86400)
	}
	var r verifRoundReply
	r.offset = verifU32("offset")
	verifHavoc(&r.bitfield, "bitfield")
	signer, owner := gcaPriv, gcaPub
	if migration {
		var np glow.PrivateKey
		r.newGCA, np = verifKeyPair("newgca")
		verifAssume(r.newGCA != glow.PublicKey{})
		r.newShortID = verifU32("newShortID")
		signer, owner = np, r.newGCA
	}
	r.servers = make([]server.AuthorizedServer, n)
	for i := range r.servers {
		as := &r.servers[i]
		verifHavoc(&as.PublicKey, verifSrvNames[i]+".key")
		as.Banned = verifBool(verifSrvNames[i] + ".banned")
		as.Location = string(verifBytesN(verifSrvNames[i]+".loc", 3))
		as.HttpPort, as.TcpPort, as.UdpPort = verifU16(verifSrvNames[i]+".http"), verifU16(verifSrvNames[i]+".tcp"), verifU16(verifSrvNames[i]+".udp")
		as.GCAAuthorization = glow.Sign(verifRefEntrySigningBytes(*as), signer)
		if tamper == 5 {
			verifHavoc(&as.GCAAuthorization, "forged.entry.sig")
			verifAssume(!glow.Verify(owner, verifRefEntrySigningBytes(*as), as.GCAAuthorization))
		}
	}
	named := c.staticPubKey
	if tamper == 3 {
		verifHavoc(&named, "other.device")
		verifAssume(named != c.staticPubKey)
	}
	body := verifGenuineReply(named, r, gcaPriv, t, gcasPriv)
	ln := len(body)
	if tamper == 4 {
		var forged glow.Signature
		verifHavoc(&forged, "forged.migration.sig")
		sb := append([]byte("EquipmentMigration"), c.staticPubKey[:]...)
		sb = append(sb, body[540:ln-136]...)
		verifAssume(!glow.Verify(gcaPub, sb, forged))
		copy(body[ln-136:ln-72], forged[:])
		ssig := glow.Sign(body[:ln-64], gcasPriv) // the answering server signs what it sends
		copy(body[ln-64:], ssig[:])
	}
	if tamper == 1 {
		var forged glow.Signature
		verifHavoc(&forged, "forged.server.sig")
		verifAssume(!glow.Verify(gcasKey, body[:ln-64], forged))
		copy(body[ln-64:], forged[:])
	}
	stream := make([]byte, 2, 2+ln)
	binary.LittleEndian.PutUint16(stream, uint16(ln))
	stream = append(stream, body...)
	loc, port := verifServe(stream, false)
	pubBefore, idBefore, listBefore := c.gcaPubKey, c.shortID, len(c.gcaServers)

	_, _, _, _, _, err := c.staticServerSync(GCAServer{Location: loc, TcpPort: port}, gcasKey, c.gcaPubKey)

	verifAssert(err != nil, "reply_missing_a_required_guarantee_is_rejected")
	verifAssert(c.gcaPubKey == pubBefore && c.shortID == idBefore && len(c.gcaServers) == listBefore, "rejected_reply_changes_no_client_state")
	verifReach("end")
}
