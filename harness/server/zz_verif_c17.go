//go:build verif

package server

import (
	"encoding/binary"

	"github.com/glowlabs-org/gca-backend/glow"
)

// Reference layouts (DESIGN.md appendix A.3), written independently of
// AuthorizedServer.Serialize/SigningBytes and EquipmentMigration.SigningBytes.

func verifRefServerBody(as AuthorizedServer) []byte {
	b := make([]byte, 0, 48+len(as.Location))
	b = append(b, as.PublicKey[:]...)
	var ban byte // a scalar diamond (one merged byte), not two differently grown slices
	if as.Banned {
		ban = 1
	}
	b = append(b, ban, byte(len(as.Location)))
	b = append(b, as.Location...)
	b = binary.LittleEndian.AppendUint16(b, as.HttpPort)
	b = binary.LittleEndian.AppendUint16(b, as.TcpPort)
	b = binary.LittleEndian.AppendUint16(b, as.UdpPort)
	return b
}

func verifRefServerSigningBytes(as AuthorizedServer) []byte {
	return append([]byte("AuthorizedServer"), verifRefServerBody(as)...)
}

func verifRefMigrationSigningBytes(em EquipmentMigration) []byte {
	b := []byte("EquipmentMigration")
	b = append(b, em.Equipment[:]...)
	b = append(b, em.NewGCA[:]...)
	b = binary.LittleEndian.AppendUint32(b, em.NewShortID)
	for _, as := range em.NewServers {
		b = append(b, verifRefServerBody(as)...)
		b = append(b, as.GCAAuthorization[:]...)
	}
	return b
}

var verifEntryNames = []string{"entry0", "entry1", "entry2"}

// verifServerList installs n arbitrary entries with pairwise distinct keys
// (an invariant of the list: the handler never appends a key it already holds).
func verifServerList(s *GCAServer, n int) []AuthorizedServer {
	pre := make([]AuthorizedServer, n)
	for i := range pre {
		verifHavoc(&pre[i], verifEntryNames[i])
		pre[i].Location = string(verifBytesN(verifEntryNames[i]+".loc", 2))
		for j := 0; j < i; j++ {
			verifAssume(pre[j].PublicKey != pre[i].PublicKey)
		}
	}
	s.gcaServers.servers = append([]AuthorizedServer(nil), pre...)
	return pre
}

// C17 (server list step): from any list of 0..2 entries, one POST of any
// body. The list changes only under a GCA signature over the documented
// bytes; an existing entry is never altered except to become banned; banned
// never reverts; a new key is appended as submitted.
func verifH_C17_server_list_step() {
	s, gcaPriv := verifHandlerServer()
	n := verifCase("entries", 0, 2)
	pre := verifServerList(s, n)
	var body AuthorizedServer
	verifHavoc(&body, "body")
	body.Location = string(verifBytesN("body.loc", 2))
	same := verifCase("body_key", 0, 2) // 0: a key not in the list; i: the key of entry i-1
	if same > n {
		return
	}
	if same > 0 {
		body.PublicKey = pre[same-1].PublicKey
	} else {
		for i := range pre {
			verifAssume(body.PublicKey != pre[i].PublicKey)
		}
	}
	signed := verifCase("signed_by_gca", 0, 1) == 1
	if signed {
		body.GCAAuthorization = glow.Sign(verifRefServerSigningBytes(body), gcaPriv)
	}
	w := &verifRW{}
	s.AuthorizedServersHandler(w, verifRequestOf("POST", nil, &body))

	verifAssert(verifLocksHeld() == 0, "locks_released")
	post := s.gcaServers.servers
	authentic := glow.Verify(s.gcaPubkey, verifRefServerSigningBytes(body), body.GCAAuthorization)
	if !authentic {
		verifAssert(len(post) == n, "list_unchanged_without_gca_signature")
		for i := 0; i < n && i < len(post); i++ {
			verifAssert(post[i] == pre[i], "list_unchanged_without_gca_signature")
		}
		verifAssert(w.status != 0 && w.status != 200, "unsigned_submission_refused")
		verifReach("refused")
		return
	}
	if signed {
		verifAssert(w.status == 0 || w.status == 200, "signed_submission_answered_ok")
	}
	if same == 0 {
		verifAssert(len(post) == n+1, "new_server_appended")
		if len(post) == n+1 {
			verifAssert(post[n] == body, "new_server_enters_as_submitted")
		}
	} else {
		verifAssert(len(post) == n, "known_key_never_appended_twice")
	}
	for i := 0; i < n && i < len(post); i++ {
		if i == same-1 && !pre[i].Banned && body.Banned {
			verifAssert(post[i] == body, "ban_of_known_server_adopted")
		} else {
			verifAssert(post[i] == pre[i], "existing_entry_never_altered_except_to_become_banned")
		}
		if pre[i].Banned {
			verifAssert(post[i].Banned && post[i] == pre[i], "banned_never_reverts")
		}
	}
	verifReach("accepted")
}

// C17 (migration order): an order is recorded only when the whole order is
// signed by the server's GCA and every new server in it by the new GCA; a
// valid order is recorded as submitted.
func verifH_C17_migration_order_step() {
	s, gcaPriv := verifHandlerServer()
	var em EquipmentMigration
	verifHavoc(&em.Equipment, "em.equipment")
	verifHavoc(&em.NewGCA, "em.newGCA")
	em.NewShortID = verifU32("em.newShortID")
	verifHavoc(&em.Signature, "em.sig")
	n := verifCase("new_servers", 0, verifTier(1, 2))
	newPub, newPriv := verifKeyPair("newgca")
	innerSigned := verifCase("inner_signed_by_new_gca", 0, 1) == 1
	outerSigned := verifCase("outer_signed_by_gca", 0, 1) == 1
	if innerSigned {
		em.NewGCA = newPub
	}
	em.NewServers = make([]AuthorizedServer, n)
	for i := range em.NewServers {
		verifHavoc(&em.NewServers[i], verifEntryNames[i])
		em.NewServers[i].Location = string(verifBytesN(verifEntryNames[i]+".loc", 2))
		if innerSigned {
			em.NewServers[i].GCAAuthorization = glow.Sign(verifRefServerSigningBytes(em.NewServers[i]), newPriv)
		}
	}
	if outerSigned {
		em.Signature = glow.Sign(verifRefMigrationSigningBytes(em), gcaPriv)
	}
	_, had := s.equipmentMigrations[em.Equipment]
	verifAssume(!had)
	w := &verifRW{}
	s.EquipmentMigrateHandler(w, verifRequestOf("POST", nil, &em))

	verifAssert(verifLocksHeld() == 0, "locks_released")
	got, recorded := s.equipmentMigrations[em.Equipment]
	outer := glow.Verify(s.gcaPubkey, verifRefMigrationSigningBytes(em), em.Signature)
	inner := true
	for i := range em.NewServers {
		if !glow.Verify(em.NewGCA, verifRefServerSigningBytes(em.NewServers[i]), em.NewServers[i].GCAAuthorization) {
			inner = false
		}
	}
	if recorded {
		verifAssert(outer, "recorded_order_is_signed_by_the_gca")
		verifAssert(inner, "recorded_order_has_every_new_server_signed_by_the_new_gca")
		verifAssert(got.Equipment == em.Equipment && got.NewGCA == em.NewGCA && got.NewShortID == em.NewShortID && got.Signature == em.Signature && len(got.NewServers) == n, "order_recorded_as_submitted")
		for i := 0; i < n && i < len(got.NewServers); i++ {
			verifAssert(got.NewServers[i] == em.NewServers[i], "order_recorded_as_submitted")
		}
		verifReach("recorded")
	} else {
		verifAssert(!(outer && inner), "valid_order_is_recorded")
		verifAssert(w.status != 0 && w.status != 200, "invalid_order_refused")
		verifReach("refused")
	}
	if outerSigned && innerSigned {
		verifAssert(recorded, "valid_order_is_recorded")
	}
}
