//go:build verif

package server

import (
	"encoding/binary"

	"github.com/glowlabs-org/gca-backend/glow"
)

// C15 (weekly statistics stream, record boundaries): for a record with no
// devices, every input length 0..80 - the valid length is 72 - is refused when
// too short and decoded to exactly its bytes otherwise, consuming 72 bytes and
// never more than it was given. (Records with devices are round-tripped by
// C03's persistence harnesses; this one pins the length checks around the
// tail of a record, where a torn last record of allDeviceStats.dat ends.)
func verifH_C15_stats_record_lengths() {
	b := verifBytesN("b", verifCase("length", 0, 80)) // every length, arbitrary content
	for i := 0; i < 4 && i < len(b); i++ {
		b[i] = 0 // device count 0 (written, not assumed: the decoder's loops then have concrete bounds)
	}
	ads, n, err := DeserializeStreamAllDeviceStats(b)
	if len(b) < 72 {
		verifAssert(err != nil, "record_of_the_wrong_length_is_refused")
		verifReach("refused")
		return
	}
	verifAssert(err == nil, "complete_record_is_decoded")
	if err != nil {
		return
	}
	verifAssert(n == 72 && n <= len(b), "decoder_consumes_exactly_the_record")
	verifAssert(len(ads.Devices) == 0 && ads.TimeslotOffset == binary.LittleEndian.Uint32(b[4:8]), "decoded_fields_are_the_encoded_ones")
	var sig glow.Signature
	copy(sig[:], b[8:72])
	verifAssert(ads.Signature == sig, "decoded_fields_are_the_encoded_ones")
	verifReach("decoded")
}
