//go:build verif

package server

import (
	"math/bits"

	"github.com/glowlabs-org/gca-backend/glow"
)

const verifCapMax = ^uint64(0) / 135 // above it Capacity*135 wraps; outside the claim

// the capacity rule as the code shapes it; verifH_C02_capacity_lemma ties it to the integer statement
func verifOver(p, capacity uint64) bool {
	return p > capacity*MaxCapacityBuffer/100 && p <= 1<<63-1
}

// (p > cap*135/100) in 64-bit arithmetic  <=>  100*p > 135*cap over the integers, for cap <= verifCapMax
func verifH_C02_capacity_lemma() {
	p := verifU64("p")
	c := verifU64("cap")
	verifAssume(c <= verifCapMax)
	h1, l1 := bits.Mul64(p, 100)
	h2, l2 := bits.Mul64(c, 135)
	wide := h1 > h2 || (h1 == h2 && l1 > l2)
	verifAssert((p > c*MaxCapacityBuffer/100) == wide, "floor_division_rule_equals_integer_rule")
	verifReach("end")
}

func verifSlotInv(rec glow.EquipmentReport, id, ts uint32, capacity uint64) bool {
	if rec.PowerOutput == 0 || rec.PowerOutput == 1 {
		return true
	}
	return rec.ShortID == id && rec.Timeslot == ts && !verifOver(rec.PowerOutput, capacity)
}

// One step of the slot machine from an arbitrary state.
func verifH_C02_step() {
	s := verifNewServer()
	var ea, eb glow.EquipmentAuthorization
	verifHavoc(&ea, "ea")
	verifHavoc(&eb, "eb")
	verifAssume(ea.ShortID != eb.ShortID)
	verifAssume(ea.Capacity <= verifCapMax)
	verifAddDevice(s, ea, "d0")
	verifAddDevice(s, eb, "d1")
	offset := verifOffset("offset")
	s.equipmentReportsOffset = offset

	var r glow.EquipmentReport
	verifHavoc(&r, "r")
	r.ShortID = ea.ShortID
	verifAssume(r.Timeslot >= offset && r.Timeslot-offset < 4032) // in window (post-acceptance)
	verifAssume(r.PowerOutput != 0 && r.PowerOutput != 1)
	idx := r.Timeslot - offset
	pre := s.equipmentReports[ea.ShortID][idx]
	verifAssume(verifSlotInv(pre, ea.ShortID, r.Timeslot, ea.Capacity))
	j := verifU32("j")
	verifAssume(j < 4032)
	preJ := s.equipmentReports[ea.ShortID][j]
	preOther := s.equipmentReports[eb.ShortID][j]
	preRate := s.equipmentImpactRate[ea.ShortID][j]

	s.integrateReport(r)

	post := s.equipmentReports[ea.ShortID][idx]
	switch {
	case pre.PowerOutput == 1:
		verifAssert(post == pre, "banned_slot_is_absorbing")
	case pre.PowerOutput == 0:
		if verifOver(r.PowerOutput, ea.Capacity) {
			verifAssert(post.PowerOutput == 1, "over_capacity_report_bans_slot")
		} else {
			verifAssert(post == r, "first_report_is_stored")
		}
	default:
		if pre == r {
			verifAssert(post == pre, "identical_replay_changes_nothing")
		} else {
			verifAssert(post.PowerOutput == 1, "second_distinct_report_bans_slot")
		}
	}
	verifAssert(verifSlotInv(post, ea.ShortID, r.Timeslot, ea.Capacity), "slot_invariant_preserved")
	if j != idx {
		verifAssert(s.equipmentReports[ea.ShortID][j] == preJ, "other_slots_untouched")
	}
	verifAssert(s.equipmentReports[eb.ShortID][j] == preOther, "other_devices_untouched")
	verifAssert(s.equipmentImpactRate[ea.ShortID][j] == preRate || preRate != preRate, "impact_rates_untouched")
	verifAssert(s.equipmentReportsOffset == offset, "offset_unchanged")
	verifReach("end")
}

// Arrival order does not matter: two valid reports for one device, any slots.
func verifH_C02_order_independent() {
	var ea glow.EquipmentAuthorization
	verifHavoc(&ea, "ea")
	verifAssume(ea.Capacity <= verifCapMax)
	offset := verifOffset("offset")
	var r1, r2 glow.EquipmentReport
	verifHavoc(&r1, "r1")
	verifHavoc(&r2, "r2")
	r1.ShortID, r2.ShortID = ea.ShortID, ea.ShortID
	verifAssume(r1.Timeslot >= offset && r1.Timeslot-offset < 4032 && r2.Timeslot >= offset && r2.Timeslot-offset < 4032)
	verifAssume(r1.PowerOutput > 1 && r2.PowerOutput > 1)
	j := verifU32("j")
	verifAssume(j < 4032)

	a := verifNewServer()
	verifAddDevice(a, ea, "d0")
	a.equipmentReportsOffset = offset
	b := verifNewServer()
	verifAddDevice(b, ea, "d0") // same names: identical symbolic pre-state
	b.equipmentReportsOffset = offset
	c1 := a.equipmentReports[ea.ShortID][r1.Timeslot-offset]
	c2 := a.equipmentReports[ea.ShortID][r2.Timeslot-offset]
	verifAssume(verifSlotInv(c1, ea.ShortID, r1.Timeslot, ea.Capacity))
	verifAssume(verifSlotInv(c2, ea.ShortID, r2.Timeslot, ea.Capacity))

	a.integrateReport(r1)
	a.integrateReport(r2)
	b.integrateReport(r2)
	b.integrateReport(r1)
	verifAssert(a.equipmentReports[ea.ShortID][j].PowerOutput == b.equipmentReports[ea.ShortID][j].PowerOutput, "published_value_independent_of_arrival_order")
	verifReach("end")
}
