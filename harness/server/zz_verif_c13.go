//go:build verif

package server

import (
	"github.com/glowlabs-org/gca-backend/glow"
)

// C13 layer 1: every root operation, run from an arbitrary state with lock
// watching on: no Lock while a mutex is held, no Unlock of a free mutex, nothing
// held at return, and every access to a mutex-protected field of GCAServer /
// AuthorizedServers happens while its mutex is held.
func verifH_C13_lock_discipline() {
	s, gcaPriv := verifHandlerServer()
	root := verifCase("root", 0, 11)
	w := &verifRW{}
	verifWatchLocks(true)
	switch root {
	case 0: // UDP report
		s.managedHandleEquipmentReport(verifBytesN("raw", 80))
	case 1: // TCP sync
		s.managedHandleSyncConn(&verifSrvConn{in: verifBytes("req", 8), deadline: true})
	case 2: // equipment authorization (valid signature)
		var ea glow.EquipmentAuthorization
		verifHavoc(&ea, "ea")
		ea.Signature = glow.Sign(ea.SigningBytes(), gcaPriv)
		s.managedAuthorizeEquipment(ea)
	case 3: // GCA registration
		var gr GCARegistration
		verifHavoc(&gr, "gr")
		s.registerGCA(gr)
	case 4: // authorized-servers POST
		var body AuthorizedServer
		verifHavoc(&body, "body")
		s.AuthorizedServersHandler(w, verifRequest("POST", nil, &body))
	case 5: // authorized-servers GET
		s.AuthorizedServersHandler(w, verifRequest("GET", nil, nil))
	case 6: // migration order
		var body EquipmentMigration
		verifHavoc(&body.Equipment, "body.Equipment")
		verifHavoc(&body.NewGCA, "body.NewGCA")
		verifHavoc(&body.Signature, "body.Signature")
		s.EquipmentMigrateHandler(w, verifRequest("POST", nil, &body))
	case 7: // equipment list
		s.EquipmentHandler(w, verifRequest("GET", nil, nil))
	case 8: // impact-data job
		s.managedGetWattTimeIndexData("u", "p")
	case 9: // consistency check
		s.CheckInvariants()
	case 10: // statistics: archived, live, second live, future and misaligned weeks, unparseable offset
		verifWatchLocks(false)
		var ds DeviceStats
		verifHavoc(&ds, "arch")
		s.equipmentStatsHistory = []AllDeviceStats{{Devices: []DeviceStats{ds}, TimeslotOffset: 0}}
		s.equipmentReportsOffset = 2016
		tsos := []int64{0, 2016, 4032, 6048, 8064, 7}
		q := map[string]string{"timeslot_offset": verifIntTokenOf("tso", tsos[verifCase("requested", 0, 5)])}
		verifWatchLocks(false)
		r := verifRequest("GET", q, nil)
		verifWatchLocks(true)
		s.AllDeviceStatsHandler(w, r)
	case 11: // recent reports
		q := map[string]string{"publicKey": "00"}
		verifWatchLocks(false)
		var key glow.PublicKey
		verifHavoc(&key, "reqkey")
		verifGhostSet("hex", key[:])
		r := verifRequest("GET", q, nil)
		verifWatchLocks(true)
		s.RecentReportsHandler(w, r)
	}
	verifWatchLocks(false)
	verifAssert(verifLocksHeld() == 0, "nothing_held_at_return")
	verifReach("end")
}

// C13 layer 2: the impact-data job releases the lock between listing the
// devices and updating each of them. Any other operation may run in that gap;
// here the interfering operation is the real conflicting authorization that
// bans the listed device.
func verifH_C13_impact_job_with_ban_in_gap() {
	s, gcaPriv := verifHandlerServer()
	var victim glow.EquipmentAuthorization
	for _, ea := range s.equipment {
		victim = ea
	}
	conflict := victim
	conflict.Debt = verifU64("otherDebt")
	verifAssume(conflict.Debt != victim.Debt)
	verifAssume(verifFinite(victim.Latitude) && verifFinite(victim.Longitude))
	conflict.Signature = glow.Sign(conflict.SigningBytes(), gcaPriv)
	locks := 0
	verifOnLock(func() {
		locks++
		if locks == 2 && verifBool("ban_in_gap") {
			s.managedAuthorizeEquipment(conflict)
		}
	})
	verifSetClock(verifU32("now"))
	s.managedGetWattTimeIndexData("u", "p")
	verifAssert(verifLocksHeld() == 0, "nothing_held_at_return")
	verifReach("end")
}
