//go:build verif

package server

import (
	"bytes"
	"encoding/json"
	"errors"
	"io"
	"net/http"
	"net/url"
)

// HTTP kit for handler harnesses. Natively: a recording ResponseWriter and a
// real request (JSON body, encoded query). Symbolically: the same objects, with
// encoding/json and url.Query() stubbed to hand over the registered values.

type verifRW struct {
	status int
	hdr    http.Header
	body   []byte
}

func (w *verifRW) Header() http.Header {
	if w.hdr == nil {
		w.hdr = http.Header{}
	}
	return w.hdr
}
func (w *verifRW) Write(b []byte) (int, error) {
	if w.status == 0 {
		w.status = 200
	}
	if !verifSymbolic() {
		w.body = append(w.body, b...)
	}
	return len(b), nil
}
func (w *verifRW) WriteHeader(c int) {
	if w.status == 0 {
		w.status = c
	}
}

// model of http.Error (symbolic execution only): status code, body ignored
func verifStub_net_http_Error(w http.ResponseWriter, msg string, code int) { w.WriteHeader(code) }

type verifBody struct{}

func (verifBody) Read(p []byte) (int, error) { return 0, io.EOF }
func (verifBody) Close() error               { return nil }

var verifPosts int

// model of http.Post (symbolic execution only): the documented contract - a
// nil response with an error, or a response with a body and no error.
func verifStub_net_http_Post(u, contentType string, body io.Reader) (*http.Response, error) {
	verifPosts++
	if verifFreshBool() {
		return nil, errors.New("peer unreachable")
	}
	return &http.Response{StatusCode: 200, Body: verifBody{}}, nil
}

// verifRequest builds a request whose body decodes to *body (may be nil) and
// whose query has the given values.
func verifRequest(method string, query map[string]string, body any) *http.Request {
	vals := url.Values{}
	for k, v := range query {
		vals[k] = []string{v}
	}
	r := &http.Request{Method: method, URL: &url.URL{}}
	if verifSymbolic() {
		verifGhostSet("query", vals)
		if body != nil {
			verifGhostSet("json.body", body)
		}
		return r
	}
	r.URL.RawQuery = vals.Encode()
	if body != nil {
		b, err := json.Marshal(body)
		if err != nil {
			panic(err)
		}
		r.Body = io.NopCloser(bytes.NewReader(b))
		r.ContentLength = int64(len(b))
	}
	return r
}

// verifRequestOf: a request whose body is the JSON rendering of *body (a
// value of the type the handler decodes into), so decoding cannot fail.
func verifRequestOf(method string, query map[string]string, body any) *http.Request {
	if verifSymbolic() {
		verifGhostSet("json.wellformed", true)
	}
	return verifRequest(method, query, body)
}

// model of strconv.ParseBool (symbolic execution only): the documented table.
func verifStub_strconv_ParseBool(str string) (bool, error) {
	switch str {
	case "1", "t", "T", "TRUE", "true", "True":
		return true, nil
	case "0", "f", "F", "FALSE", "false", "False":
		return false, nil
	}
	return false, errors.New("strconv.ParseBool: invalid syntax")
}
