//go:build verif

package server

import (
	"os"
	"path/filepath"

	"github.com/glowlabs-org/gca-backend/glow"
)

// Helpers that build server pre-states directly ("drive the unit, not the
// program"). The same code runs natively during replay (real directory, real
// logger, real keys) and symbolically (ghost disk, stubbed logger, UF keys).

func verifMkLogger(dir string) *Logger {
	if verifSymbolic() {
		return nil // every Logger method is a no-op stub under symbolic execution
	}
	l, err := NewLogger(DEBUG, filepath.Join(dir, "server.log"))
	if err != nil {
		panic(err)
	}
	return l
}

// verifNewServer returns an empty, started-looking server over a directory
// whose append-only files exist and are empty.
func verifNewServer() *GCAServer {
	dir := verifTempDir()
	s := &GCAServer{
		baseDir:               dir,
		equipment:             make(map[uint32]glow.EquipmentAuthorization),
		equipmentShortID:      make(map[glow.PublicKey]uint32),
		equipmentBans:         make(map[uint32]struct{}),
		equipmentImpactRate:   make(map[uint32]*[4032]float64),
		equipmentMigrations:   make(map[glow.PublicKey]EquipmentMigration),
		equipmentReports:      make(map[uint32]*[4032]glow.EquipmentReport),
		recentReports:         make([]glow.EquipmentReport, 0, 8),
		ApiArchiveRateLimiter: glow.NewRateLimiter(apiArchiveLimit, apiArchiveRate),
	}
	s.logger = verifMkLogger(dir)
	for _, f := range []string{"equipment-reports.dat", "equipment-authorizations.dat", AllDeviceStatsHistoryFile} {
		if err := os.WriteFile(filepath.Join(dir, f), nil, 0644); err != nil {
			panic(err)
		}
	}
	return s
}

// verifAddDevice installs an authorized device with arbitrary live-window
// contents (reports and impact rates named name+".rep" / name+".rate").
func verifAddDevice(s *GCAServer, ea glow.EquipmentAuthorization, name string) {
	reports := new([4032]glow.EquipmentReport)
	verifHavoc(reports, name+".rep")
	rates := new([4032]float64)
	verifHavoc(rates, name+".rate")
	s.equipment[ea.ShortID] = ea
	s.equipmentShortID[ea.PublicKey] = ea.ShortID
	s.equipmentReports[ea.ShortID] = reports
	s.equipmentImpactRate[ea.ShortID] = rates
}

// verifOffset returns an arbitrary window offset allowed by Inv_S.
func verifOffset(name string) uint32 {
	o := verifU32(name)
	verifAssume(o%2016 == 0)
	verifAssume(o <= 0xFFFFFFFF-4032) // offset+4032 itself does not wrap (year ~42000; beyond it is outside the claim)
	return o
}

func verifFileLen(s *GCAServer, name string) int {
	b, err := os.ReadFile(filepath.Join(s.baseDir, name))
	if err != nil {
		return -1
	}
	return len(b)
}
