//go:build verif

package server

import (
	"os"
	"path/filepath"

	"github.com/glowlabs-org/gca-backend/glow"
)

func verifGCAFile(s *GCAServer) ([]byte, bool) {
	b, err := os.ReadFile(filepath.Join(s.baseDir, "gcaPubKey.dat"))
	return b, err == nil
}

// independent layout of the registration message: "GCARegistration" || key
func verifRegistrationBytes(k glow.PublicKey) []byte {
	return append([]byte("GCARegistration"), k[:]...)
}

// C07 (1): one registration attempt from an arbitrary state; the submission is
// signed by the temporary key, by the candidate GCA key itself, or carries
// arbitrary signature bytes.
func verifH_C07_register_step() {
	s := verifNewServer()
	tempPub, tempPriv := verifKeyPair("temp")
	s.gcaTempKey = tempPub
	registered := verifBool("registered")
	var cur glow.PublicKey
	verifHavoc(&cur, "curGCA")
	if registered {
		s.gcaPubkey = cur
		s.gcaPubkeyAvailable = true
		if err := os.WriteFile(filepath.Join(s.baseDir, "gcaPubKey.dat"), cur[:], 0644); err != nil {
			panic(err)
		}
	}
	candPub, candPriv := verifKeyPair("candidate")
	gr := GCARegistration{GCAKey: candPub}
	signer := verifCase("signer", 0, 2)
	switch signer {
	case 0:
		gr.Signature = glow.Sign(gr.SigningBytes(), tempPriv)
	case 1:
		gr.Signature = glow.Sign(gr.SigningBytes(), candPriv)
	default:
		verifHavoc(&gr.Signature, "sig")
	}
	preKey, preAvail := s.gcaPubkey, s.gcaPubkeyAvailable
	preFile, preFileOK := verifGCAFile(s)

	err := s.registerGCA(gr)

	verifAssert(verifLocksHeld() == 0, "lock_released")
	postFile, postFileOK := verifGCAFile(s)
	if registered {
		verifAssert(err != nil, "second_registration_refused")
	}
	if signer == 0 && !registered {
		verifAssert(err == nil, "registration_signed_by_temporary_key_accepted")
	}
	if err == nil {
		verifAssert(!preAvail, "success_only_when_unregistered")
		verifAssert(glow.Verify(tempPub, verifRegistrationBytes(gr.GCAKey), gr.Signature), "success_requires_temporary_key_signature_over_exact_bytes")
		verifAssert(s.gcaPubkeyAvailable && s.gcaPubkey == gr.GCAKey, "key_installed")
		verifAssert(postFileOK && len(postFile) == 32 && string(postFile) == string(gr.GCAKey[:]), "key_persisted")
	} else {
		verifAssert(s.gcaPubkey == preKey && s.gcaPubkeyAvailable == preAvail, "refusal_changes_no_state")
		verifAssert(postFileOK == preFileOK && string(postFile) == string(preFile), "refusal_changes_no_file")
	}
	verifReach("end")
}

// C07 (3): after a successful registration neither a second registration nor
// one after a restart (loadGCAPubkey on the written file) succeeds.
func verifH_C07_write_once() {
	s := verifNewServer()
	tempPub, tempPriv := verifKeyPair("temp")
	s.gcaTempKey = tempPub
	k1, _ := verifKeyPair("gca1")
	k2, _ := verifKeyPair("gca2")
	g1 := GCARegistration{GCAKey: k1}
	g1.Signature = glow.Sign(g1.SigningBytes(), tempPriv)
	g2 := GCARegistration{GCAKey: k2}
	g2.Signature = glow.Sign(g2.SigningBytes(), tempPriv)
	verifAssert(s.registerGCA(g1) == nil, "first_registration_succeeds")
	verifAssert(s.registerGCA(g2) != nil, "second_registration_fails")
	verifAssert(s.registerGCA(g1) != nil, "replay_of_first_fails")
	verifAssert(s.gcaPubkey == k1, "key_unchanged")
	// restart
	s2 := &GCAServer{baseDir: s.baseDir, logger: s.logger, gcaTempKey: tempPub}
	verifAssert(s2.loadGCAPubkey() == nil, "reload_succeeds")
	verifAssert(s2.gcaPubkeyAvailable && s2.gcaPubkey == k1, "reload_restores_key")
	verifAssert(s2.registerGCA(g2) != nil, "registration_after_restart_fails")
	verifAssert(s2.gcaPubkey == k1, "key_unchanged_after_restart")
	verifReach("end")
}

// C07 (2): no equipment is authorized before registration
func verifH_C07_no_authorization_before_registration() {
	s := verifNewServer()
	var ea glow.EquipmentAuthorization
	verifHavoc(&ea, "ea")
	isNew, err := s.managedAuthorizeEquipment(ea)
	verifAssert(err != nil && !isNew, "refused_before_registration")
	verifAssert(len(s.equipment) == 0, "no_equipment")
	verifReach("end")
}

// C07 (concurrency): a second correctly signed registration for another key
// runs at any point where the first one does not hold the server mutex
// (before its first Lock, or at any later Lock it takes). Exactly one of the
// two may succeed, and the key in memory and on disk is the accepted one.
func verifH_C07_concurrent_registrations() {
	s := verifNewServer()
	tempPub, tempPriv := verifKeyPair("temp")
	s.gcaTempKey = tempPub
	k1, _ := verifKeyPair("gca1")
	k2, _ := verifKeyPair("gca2")
	verifAssume(k1 != k2)
	g1 := GCARegistration{GCAKey: k1}
	g1.Signature = glow.Sign(g1.SigningBytes(), tempPriv)
	g2 := GCARegistration{GCAKey: k2}
	g2.Signature = glow.Sign(g2.SigningBytes(), tempPriv)
	gap := verifCase("gap", 1, 3)
	locks := 0
	var err2 error
	ran := false
	verifOnLock(func() {
		locks++
		if locks == gap && !ran {
			ran = true
			err2 = s.registerGCA(g2)
		}
	})
	err1 := s.registerGCA(g1)
	if !ran {
		return // registerGCA takes fewer than `gap` locks: nothing was interleaved
	}
	verifAssert(!(err1 == nil && err2 == nil), "at_most_one_registration_succeeds")
	verifAssert(err1 == nil || err2 == nil, "one_of_two_valid_registrations_succeeds")
	want := k1
	if err1 != nil {
		want = k2
	}
	verifAssert(s.gcaPubkeyAvailable && s.gcaPubkey == want, "installed_key_is_the_accepted_one")
	file, ok := verifGCAFile(s)
	verifAssert(ok && string(file) == string(want[:]), "persisted_key_is_the_accepted_one")
	verifAssert(verifLocksHeld() == 0, "lock_released")
	verifReach("end")
}
