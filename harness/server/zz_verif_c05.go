//go:build verif

package server

import (
	"os"
	"path/filepath"

	"github.com/glowlabs-org/gca-backend/glow"
)

func verifCanRegister(s *GCAServer, tempPriv glow.PrivateKey) bool {
	k, _ := verifKeyPair("lateGCA")
	gr := GCARegistration{GCAKey: k}
	gr.Signature = glow.Sign(gr.SigningBytes(), tempPriv)
	return s.registerGCA(gr) == nil
}

// C05 (a): every state a create-then-write or truncate-then-write sequence can
// expose - the file exists but is still empty - for each file the server
// writes, on a server that was started once (and possibly registered).
func verifH_C05_file_present_but_empty() {
	tempPub, tempPriv := verifKeyPair("temp")
	gcaPub, _ := verifKeyPair("gca")
	s := verifFirstStart(tempPub)
	registered := verifCase("registered", 0, 1) == 1
	if registered {
		gr := GCARegistration{GCAKey: gcaPub}
		gr.Signature = glow.Sign(gr.SigningBytes(), tempPriv)
		verifAssert(s.registerGCA(gr) == nil, "registration_succeeds")
	}
	files := []string{"server.keys", "gcaPubKey.dat", "equipment-authorizations.dat", "equipment-reports.dat", AllDeviceStatsHistoryFile}
	which := verifCase("file", 0, 4)
	if registered && files[which] == "gcaPubKey.dat" {
		return // not reachable: the key file is written once, by the registration of an unregistered server
	}
	// crash between the create/truncate and the write of that file
	if err := os.WriteFile(filepath.Join(s.baseDir, files[which]), nil, 0644); err != nil {
		panic(err)
	}
	s2, err := verifReload(s.baseDir)
	verifAssert(err == nil && s2 != nil, "server_starts_again")
	if err == nil && s2 != nil {
		var zero glow.PublicKey
		if files[which] == "gcaPubKey.dat" {
			// the interrupted registration must not be half applied
			verifAssert(!(s2.gcaPubkeyAvailable && s2.gcaPubkey == zero), "no_registration_with_an_empty_key")
			verifAssert(!s2.gcaPubkeyAvailable, "interrupted_registration_is_not_applied")
			verifAssert(verifCanRegister(s2, tempPriv), "gca_can_still_register")
		} else if !registered {
			verifAssert(verifCanRegister(s2, tempPriv), "gca_can_still_register")
		} else {
			verifAssert(s2.gcaPubkeyAvailable && s2.gcaPubkey == gcaPub, "registration_kept")
		}
	}
	verifReach("end")
}

// C05 (b): the process dies after `crash` completed disk system calls of the
// first start; the next start must succeed and the GCA can register.
func verifH_C05_crash_during_first_start() {
	tempPub, tempPriv := verifKeyPair("temp")
	dir := verifTempDir()
	if err := os.WriteFile(filepath.Join(dir, "gcaTempPubKey.dat"), tempPub[:], 0644); err != nil {
		panic(err)
	}
	crash := verifCase("crash", 0, 6)
	verifCrashAfter(crash)
	verifReload(dir) // dies after `crash` disk events; memory is discarded
	verifCrashEnd()
	s2, err := verifReload(dir)
	verifAssert(err == nil && s2 != nil, "next_start_succeeds")
	if err == nil && s2 != nil {
		verifAssert(verifCanRegister(s2, tempPriv), "gca_can_register")
	}
	verifReach("end")
}

// C05 (c): the process dies inside one operation (after `crash` of its disk
// system calls). The recovered state is the state before the operation or the
// state after it, never a mixture.
func verifH_C05_crash_inside_operation() {
	w := verifStartWorld()
	w.authorize(w.eaA)
	w.report(w.idA, 5, verifPower("p0", w.eaA.Capacity), w.privA)
	q := verifU32("q")
	j := verifU32("j")
	verifAssume(j < 4032)
	before, err0 := verifReload(w.s.baseDir)
	verifAssert(err0 == nil && before != nil, "restart_before_operation_succeeds")
	op := verifCase("op", 0, 2)
	crash := verifCase("crash", 0, 2)
	verifCrashAfter(crash)
	switch op {
	case 0:
		w.authorize(w.eaB)
	case 1:
		w.report(w.idA, 6, verifPower("p1", w.eaA.Capacity), w.privA)
	case 2:
		c := w.eaA
		c.Debt = verifU64("otherDebt")
		verifAssume(c.Debt != w.eaA.Debt)
		w.authorize(c)
	}
	verifCrashEnd()
	after, err := verifReload(w.s.baseDir)
	verifAssert(err == nil && after != nil, "restart_after_crash_succeeds")
	if err0 == nil && before != nil && err == nil && after != nil {
		_, inB := before.equipment[q]
		_, inA := after.equipment[q]
		_, inL := w.s.equipment[q]
		_, banB := before.equipmentBans[q]
		_, banA := after.equipmentBans[q]
		_, banL := w.s.equipmentBans[q]
		same := func(x, y *GCAServer, inX, inY, banX, banY bool) bool {
			if inX != inY || banX != banY {
				return false
			}
			if inX && x.equipmentReports[q][j] != y.equipmentReports[q][j] {
				return false
			}
			return true
		}
		verifAssert(same(after, before, inA, inB, banA, banB) || same(after, w.s, inA, inL, banA, banL), "recovered_state_is_before_or_after")
	}
	verifReach("end")
}
