//go:build verif

package server

import (
	"io"
	"net"
	"time"

	"github.com/glowlabs-org/gca-backend/glow"
)

// verifHandlerServer: a registered server with one device, one authorized
// peer server and one archived week, over a real/ghost directory.
func verifHandlerServer() (*GCAServer, glow.PrivateKey) {
	s := verifNewServer()
	gcaPub, gcaPriv := verifKeyPair("gca")
	s.gcaPubkey, s.gcaPubkeyAvailable = gcaPub, true
	pub, priv := verifKeyPair("server")
	s.staticPublicKey, s.staticPrivateKey = pub, priv
	var ea glow.EquipmentAuthorization
	verifHavoc(&ea, "dev")
	verifAddDevice(s, ea, "d0")
	s.equipmentReportsOffset = 0
	s.gcaServers.servers = []AuthorizedServer{{Location: "127.0.0.1", HttpPort: 1}} // a peer that is down
	return s, gcaPriv
}

var verifMethods = []string{"GET", "POST", "PUT"}

// C12: every HTTP handler, any method, any decodable body, arbitrary query
// values, peers unreachable or not: no panic, locks released.
func verifH_C12_handlers_never_panic() {
	s, gcaPriv := verifHandlerServer()
	signed := verifBool("body_signed_by_gca") // bodies with arbitrary signature bytes, or really signed by the GCA
	method := verifMethods[verifCase("method", 0, 2)]
	h := verifCase("handler", 0, 6)
	query := map[string]string{
		"timeslot_offset":        verifIntTokenOf("tso", int64(verifU32("tso.val"))),
		"publicKey":              verifStr("pk", 3),
		"insert_false_negatives": verifStr("ifn", 3),
	}
	w := &verifRW{}
	switch h {
	case 0:
		var body glow.EquipmentAuthorization
		verifHavoc(&body, "body")
		if signed {
			body.Signature = glow.Sign(body.SigningBytes(), gcaPriv)
		}
		s.AuthorizeEquipmentHandler(w, verifRequest(method, query, &body))
	case 1:
		var body GCARegistration
		verifHavoc(&body, "body")
		s.RegisterGCAHandler(w, verifRequest(method, query, &body))
	case 2:
		var body AuthorizedServer
		verifHavoc(&body, "body")
		if signed {
			body.GCAAuthorization = glow.Sign(body.SigningBytes(), gcaPriv)
		}
		s.AuthorizedServersHandler(w, verifRequest(method, query, &body))
	case 3:
		if method == "POST" && verifTier(0, 1) == 0 {
			return // the accepted-method path of the migration endpoint is C17's subject; thorough tier runs it here too
		}
		var body EquipmentMigration
		verifHavoc(&body, "body")
		s.EquipmentMigrateHandler(w, verifRequest(method, query, &body))
	case 4:
		s.EquipmentHandler(w, verifRequest(method, query, nil))
	case 5:
		s.RecentReportsHandler(w, verifRequest(method, query, nil))
	case 6:
		if method == "GET" && verifTier(0, 1) == 0 {
			return // the statistics handler's GET path runs in C03's harnesses (archived and live weeks, with and without insert_false_negatives)
		}
		s.AllDeviceStatsHandler(w, verifRequest(method, query, nil))
	}
	verifAssert(verifLocksHeld() == 0, "locks_released")
	verifReach("end")
}

// C12 (peer failure): a new, GCA-signed authorization arrives while the
// authorized peer server is unreachable.
func verifH_C12_authorization_with_peer_down() {
	s, gcaPriv := verifHandlerServer()
	devPub, _ := verifKeyPair("newdev")
	var body glow.EquipmentAuthorization
	verifHavoc(&body, "body")
	body.PublicKey = devPub
	_, taken := s.equipment[body.ShortID]
	verifAssume(!taken)
	verifAssume(verifFinite(body.Latitude) && verifFinite(body.Longitude))
	body.Signature = glow.Sign(body.SigningBytes(), gcaPriv)
	w := &verifRW{}
	s.AuthorizeEquipmentHandler(w, verifRequest("POST", nil, &body))
	verifAssert(verifLocksHeld() == 0, "locks_released")
	if w.status == 0 || w.status == 200 {
		_, added := s.equipment[body.ShortID]
		verifAssert(added, "authorization_applied_when_answered_ok")
	}
	verifReach("end")
}

// ---- TCP sync: boundedness ----

// verifSrvConn: scripted peer; records whether a read could block forever
// (a Read issued while no deadline is set).
type verifSrvConn struct {
	in              []byte
	pos             int
	out             []byte
	deadline        bool
	unboundedRead   bool
	closed          bool
}

func (c *verifSrvConn) Read(b []byte) (int, error) {
	if !c.deadline {
		c.unboundedRead = true
	}
	if c.pos >= len(c.in) {
		return 0, io.EOF
	}
	n := copy(b, c.in[c.pos:])
	c.pos += n
	return n, nil
}
func (c *verifSrvConn) Write(b []byte) (int, error) {
	c.out = append(c.out, b...)
	return len(b), nil
}
func (c *verifSrvConn) Close() error                       { c.closed = true; return nil }
func (c *verifSrvConn) LocalAddr() net.Addr                { return nil }
func (c *verifSrvConn) RemoteAddr() net.Addr               { return nil }
func (c *verifSrvConn) SetDeadline(t time.Time) error      { c.deadline = true; return nil }
func (c *verifSrvConn) SetReadDeadline(t time.Time) error  { c.deadline = true; return nil }
func (c *verifSrvConn) SetWriteDeadline(t time.Time) error { return nil }

// C12 (TCP): any request bytes (0..8, so short and half-sent requests are
// included): no panic, the connection is closed, and no read can block
// forever (a goroutine of the thread group must not wait on a peer without a
// deadline, or shutdown is unbounded).
func verifH_C12_sync_request_is_bounded() {
	s, _ := verifHandlerServer()
	req := verifBytes("req", 8)
	conn := &verifSrvConn{in: req}
	s.managedHandleSyncConn(conn)
	verifAssert(verifLocksHeld() == 0, "locks_released")
	verifAssert(conn.closed, "connection_closed")
	verifAssert(!conn.unboundedRead, "no_read_without_deadline")
	verifReach("end")
}
