//go:build verif

package server

import (
	"math"
	"os"
	"path/filepath"

	"github.com/glowlabs-org/gca-backend/glow"
)

// verifReload performs what NewGCAServer does with persistent state: the
// loaders, in its order, on a fresh GCAServer over dir.
func verifReload(dir string) (*GCAServer, error) {
	s := &GCAServer{
		baseDir:               dir,
		equipment:             make(map[uint32]glow.EquipmentAuthorization),
		equipmentShortID:      make(map[glow.PublicKey]uint32),
		equipmentBans:         make(map[uint32]struct{}),
		equipmentImpactRate:   make(map[uint32]*[4032]float64),
		equipmentMigrations:   make(map[glow.PublicKey]EquipmentMigration),
		equipmentReports:      make(map[uint32]*[4032]glow.EquipmentReport),
		recentReports:         make([]glow.EquipmentReport, 0, 8),
		ApiArchiveRateLimiter: glow.NewRateLimiter(apiArchiveLimit, apiArchiveRate),
	}
	s.logger = verifMkLogger(dir)
	var err error
	s.staticPublicKey, s.staticPrivateKey, err = s.loadGCAServerKeys()
	if err != nil {
		return nil, err
	}
	if err := s.loadGCATempKey(); err != nil {
		return nil, err
	}
	if err := s.loadGCAPubkey(); err != nil {
		return nil, err
	}
	if err := s.loadEquipment(); err != nil {
		return nil, err
	}
	if err := s.loadEquipmentHistory(); err != nil {
		return nil, err
	}
	if err := s.loadEquipmentReports(); err != nil {
		return nil, err
	}
	return s, nil
}

// verifFirstStart: a directory as the technicians prepare it (temporary key
// installed), started for the first time.
func verifFirstStart(tempPub glow.PublicKey) *GCAServer {
	dir := verifTempDir()
	if err := os.WriteFile(filepath.Join(dir, "gcaTempPubKey.dat"), tempPub[:], 0644); err != nil {
		panic(err)
	}
	s, err := verifReload(dir)
	verifAssert(err == nil && s != nil, "first_start_succeeds")
	return s
}

func verifSameAuth(a, b glow.EquipmentAuthorization) bool {
	return a.ShortID == b.ShortID && a.PublicKey == b.PublicKey && math.Float64bits(a.Latitude) == math.Float64bits(b.Latitude) &&
		math.Float64bits(a.Longitude) == math.Float64bits(b.Longitude) && a.Capacity == b.Capacity && a.Debt == b.Debt &&
		a.Expiration == b.Expiration && a.Initialization == b.Initialization && a.ProtocolFee == b.ProtocolFee && a.Signature == b.Signature
}

// verifSameObservable: the two servers agree on every fact C04 lists, observed
// at an arbitrary device id q and an arbitrary window slot j.
func verifSameObservable(a, b *GCAServer, q uint32, j uint32, tag string) {
	verifAssert(a.gcaPubkeyAvailable == b.gcaPubkeyAvailable && a.gcaPubkey == b.gcaPubkey, tag+"_same_gca_key")
	verifAssert(a.staticPublicKey == b.staticPublicKey, tag+"_same_server_key")
	ea, inA := a.equipment[q]
	eb, inB := b.equipment[q]
	verifAssert(inA == inB, tag+"_same_authorized_set")
	if inA && inB {
		verifAssert(verifSameAuth(ea, eb), tag+"_same_authorization")
		verifAssert(a.equipmentReports[q][j] == b.equipmentReports[q][j], tag+"_same_slot_record")
	}
	_, banA := a.equipmentBans[q]
	_, banB := b.equipmentBans[q]
	verifAssert(banA == banB, tag+"_same_ban_set")
	verifAssert(a.equipmentReportsOffset == b.equipmentReportsOffset, tag+"_same_offset")
	verifAssert(len(a.equipmentStatsHistory) == len(b.equipmentStatsHistory), tag+"_same_history_length")
}

// ---- scenario histories ----
//
// Each scenario fixes the *shape* of a history (which operations, which of them
// hit an existing id or slot); every payload stays symbolic. Clock, window
// offset and the slots used are concrete, because acceptance is C01's subject.

type verifWorld struct {
	s                  *GCAServer
	gcaPriv            glow.PrivateKey
	pubA, pubB         glow.PublicKey
	privA, privB       glow.PrivateKey
	idA, idB           uint32
	eaA, eaB           glow.EquipmentAuthorization
}

func verifStartWorld() *verifWorld {
	tempPub, tempPriv := verifKeyPair("temp")
	gcaPub, gcaPriv := verifKeyPair("gca")
	w := &verifWorld{gcaPriv: gcaPriv}
	w.pubA, w.privA = verifKeyPair("devA")
	w.pubB, w.privB = verifKeyPair("devB")
	verifAssume(w.pubA != w.pubB)
	w.s = verifFirstStart(tempPub)
	gr := GCARegistration{GCAKey: gcaPub}
	gr.Signature = glow.Sign(gr.SigningBytes(), tempPriv)
	verifAssert(w.s.registerGCA(gr) == nil, "registration_succeeds")
	verifSetClock(10)
	w.idA, w.idB = verifU32("idA"), verifU32("idB")
	verifAssume(w.idA != w.idB)
	verifHavoc(&w.eaA, "eaA")
	verifHavoc(&w.eaB, "eaB")
	w.eaA.ShortID, w.eaA.PublicKey = w.idA, w.pubA
	w.eaB.ShortID, w.eaB.PublicKey = w.idB, w.pubB
	verifAssume(verifFinite(w.eaA.Latitude) && verifFinite(w.eaA.Longitude) && verifFinite(w.eaB.Latitude) && verifFinite(w.eaB.Longitude))
	return w
}

func (w *verifWorld) authorize(ea glow.EquipmentAuthorization) (bool, error) {
	ea.Signature = glow.Sign(ea.SigningBytes(), w.gcaPriv)
	return w.s.managedAuthorizeEquipment(ea)
}

func (w *verifWorld) report(id uint32, ts uint32, power uint64, priv glow.PrivateKey) {
	r := glow.EquipmentReport{ShortID: id, Timeslot: ts, PowerOutput: power}
	r.Signature = glow.Sign(r.SigningBytes(), priv)
	w.s.managedHandleEquipmentReport(r.Serialize())
}

// verifPower: a non-sentinel power value within the device's capacity (the
// capacity ban is C02's subject; here it would only make the history shape symbolic).
func verifPower(name string, capacity uint64) uint64 {
	p := verifU64(name)
	verifAssume(p != 0 && p != 1)
	verifAssume(p <= capacity*MaxCapacityBuffer/100)
	return p
}

func (w *verifWorld) restartAndCompare() {
	q := verifU32("q")
	j := verifU32("j")
	verifAssume(j < 4032)
	s2, err := verifReload(w.s.baseDir)
	verifAssert(err == nil && s2 != nil, "restart_succeeds")
	if err == nil && s2 != nil {
		verifSameObservable(w.s, s2, q, j, "restart")
		s3, err3 := verifReload(w.s.baseDir)
		verifAssert(err3 == nil && s3 != nil, "second_restart_succeeds")
		if err3 == nil && s3 != nil {
			verifSameObservable(s2, s3, q, j, "second_restart")
		}
	}
}

func verifH_C04_restart_after_history() {
	w := verifStartWorld()
	switch verifCase("scenario", 0, 6) {
	case 0: // authorize, report, conflicting authorization (ban with reports on disk)
		w.authorize(w.eaA)
		w.report(w.idA, 5, verifPower("p0", w.eaA.Capacity), w.privA)
		c := w.eaA
		c.Capacity = verifU64("otherCapacity")
		verifAssume(c.Capacity != w.eaA.Capacity)
		w.authorize(c)
	case 1: // report, identical replay, a different report for the same slot (banned slot)
		w.authorize(w.eaA)
		p := verifPower("p0", w.eaA.Capacity)
		w.report(w.idA, 5, p, w.privA)
		w.report(w.idA, 5, p, w.privA)
		p2 := verifPower("p1", w.eaA.Capacity)
		verifAssume(p2 != p)
		w.report(w.idA, 5, p2, w.privA)
	case 2: // two devices, interleaved
		w.authorize(w.eaA)
		w.authorize(w.eaB)
		w.report(w.idA, 5, verifPower("p0", w.eaA.Capacity), w.privA)
		w.report(w.idB, 7, verifPower("p1", w.eaB.Capacity), w.privB)
	case 3: // identical authorization resubmitted, then a report
		// (concrete coordinates: the live duplicate test is IEEE ==, which is not
		// syntactically reflexive for symbolic floats)
		w.eaA.Latitude, w.eaA.Longitude = 38.5, -120.25
		w.authorize(w.eaA)
		w.authorize(w.eaA)
		w.report(w.idA, 4031, verifPower("p0", w.eaA.Capacity), w.privA)
	case 4: // ban, then a refused authorization and a refused report for the banned id
		w.authorize(w.eaA)
		c := w.eaA
		c.Debt = verifU64("otherDebt")
		verifAssume(c.Debt != w.eaA.Debt)
		w.authorize(c)
		w.authorize(w.eaA)
		w.report(w.idA, 5, verifPower("p0", w.eaA.Capacity), w.privA)
		w.authorize(w.eaB)
	case 5, 6: // two devices with reports on disk, then one of them is banned (either report order)
		w.authorize(w.eaA)
		w.authorize(w.eaB)
		if verifCase("scenario", 0, 6) == 5 {
			w.report(w.idA, 5, verifPower("p0", w.eaA.Capacity), w.privA)
			w.report(w.idB, 7, verifPower("p1", w.eaB.Capacity), w.privB)
		} else {
			w.report(w.idB, 7, verifPower("p1", w.eaB.Capacity), w.privB)
			w.report(w.idA, 5, verifPower("p0", w.eaA.Capacity), w.privA)
		}
		c := w.eaA
		c.Expiration = verifU32("otherExpiration")
		verifAssume(c.Expiration != w.eaA.Expiration)
		w.authorize(c)
	}
	w.restartAndCompare()
	verifReach("end")
}
