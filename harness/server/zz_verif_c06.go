//go:build verif

package server

import (
	"github.com/glowlabs-org/gca-backend/glow"
)

// finite: exponent bits are not all ones (pure bit test, no floating-point arithmetic)
func verifFinite(f float64) bool { return verifF64Bits(f)>>52&0x7ff != 0x7ff }

// independent layout of the authorization message
func verifAuthorizationBytes(ea glow.EquipmentAuthorization) []byte {
	b := []byte("EquipmentAuthorization")
	le := func(v uint64, n int) {
		for i := 0; i < n; i++ {
			b = append(b, byte(v>>(8*uint(i))))
		}
	}
	le(uint64(ea.ShortID), 4)
	b = append(b, ea.PublicKey[:]...)
	le(verifF64Bits(ea.Latitude), 8)
	le(verifF64Bits(ea.Longitude), 8)
	le(ea.Capacity, 8)
	le(ea.Debt, 8)
	le(uint64(ea.Expiration), 4)
	le(uint64(ea.Initialization), 4)
	le(ea.ProtocolFee, 8)
	return b
}

// C06: one authorization submitted to a server with two authorized devices X, Y
// and one banned id Z. signer 0: the registered GCA key; 1: arbitrary signature bytes.
func verifH_C06_authorize_step() {
	s := verifNewServer()
	gcaPub, gcaPriv := verifKeyPair("gca")
	s.gcaPubkey = gcaPub
	s.gcaPubkeyAvailable = true
	var x, y glow.EquipmentAuthorization
	verifHavoc(&x, "x")
	verifHavoc(&y, "y")
	z := verifU32("z")
	verifAssume(x.ShortID != y.ShortID && x.ShortID != z && y.ShortID != z)
	verifAssume(x.PublicKey != y.PublicKey)
	verifAssume(verifFinite(x.Latitude) && verifFinite(x.Longitude) && verifFinite(y.Latitude) && verifFinite(y.Longitude))
	verifAddDevice(s, x, "dx")
	verifAddDevice(s, y, "dy")
	s.equipmentBans[z] = struct{}{}
	repX, repY := s.equipmentReports[x.ShortID], s.equipmentReports[y.ShortID]
	rateY := s.equipmentImpactRate[y.ShortID]

	var ea glow.EquipmentAuthorization
	verifHavoc(&ea, "ea")
	verifAssume(verifFinite(ea.Latitude) && verifFinite(ea.Longitude))
	signer := verifCase("signer", 0, 1)
	if signer == 0 {
		ea.Signature = glow.Sign(ea.SigningBytes(), gcaPriv)
	}
	preFile := verifFileLen(s, "equipment-authorizations.dat")
	verifAssume(preFile == 0)

	isNew, err := s.managedAuthorizeEquipment(ea)

	verifAssert(verifLocksHeld() == 0, "lock_released")
	postFile := verifFileLen(s, "equipment-authorizations.dat")
	_, bannedX := s.equipmentBans[x.ShortID]
	curX, hasX := s.equipment[x.ShortID]
	changed := !hasX || curX != x || len(s.equipment) != 2 || postFile != 0 || bannedX
	if changed {
		verifAssert(glow.Verify(gcaPub, verifAuthorizationBytes(ea), ea.Signature), "change_requires_gca_signature_over_exact_bytes")
	}
	// Y (and its key lookup, reports, rates) is never touched by a submission for another id
	if ea.ShortID != y.ShortID {
		curY, hasY := s.equipment[y.ShortID]
		idY, hasIdY := s.equipmentShortID[y.PublicKey]
		verifAssert(hasY && curY == y, "other_device_authorization_untouched")
		if ea.PublicKey != y.PublicKey || ea.ShortID == x.ShortID || ea.ShortID == z {
			// (a new id that reuses Y's key is outside the claim: the statement does not say what should happen)
			verifAssert(hasIdY && idY == y.ShortID, "other_device_key_lookup_untouched")
		}
		verifAssert(s.equipmentReports[y.ShortID] == repY && s.equipmentImpactRate[y.ShortID] == rateY, "other_device_data_untouched")
		_, bannedY := s.equipmentBans[y.ShortID]
		verifAssert(!bannedY, "other_device_not_banned")
	}
	if signer == 0 {
		switch {
		case ea.ShortID == z:
			verifAssert(err != nil && !isNew && !changed, "banned_id_refused")
		case ea.ShortID == x.ShortID && ea == x:
			verifAssert(err == nil && !isNew && !changed, "identical_resubmission_changes_nothing")
		case ea.ShortID == x.ShortID:
			_, hasRep := s.equipmentReports[x.ShortID]
			_, hasRate := s.equipmentImpactRate[x.ShortID]
			verifAssert(err != nil && !hasX && !hasRep && !hasRate && bannedX, "conflict_bans_the_id")
			idX, hasIdX := s.equipmentShortID[x.PublicKey]
			verifAssert(!hasIdX || idX != x.ShortID, "banned_device_key_lookup_removed")
			verifAssert(postFile == 148, "conflicting_authorization_persisted_as_evidence")
		case ea.ShortID != y.ShortID:
			if ea.PublicKey != x.PublicKey && ea.PublicKey != y.PublicKey {
				cur, has := s.equipment[ea.ShortID]
				verifAssert(err == nil && isNew && has && cur == ea, "new_device_added")
				verifAssert(postFile == 148, "new_authorization_persisted")
			}
		}
		verifAssert(hasX == (s.equipmentReports[x.ShortID] == repX), "reports_present_iff_authorized")
	}
	// the server's own consistency check keeps passing (distinct keys assumed for new ids)
	if signer == 0 && (ea.ShortID == x.ShortID || ea.ShortID == y.ShortID || ea.ShortID == z || (ea.PublicKey != x.PublicKey && ea.PublicKey != y.PublicKey)) {
		s.CheckInvariants()
	}
	verifReach("end")
}
