//go:build verif

package server

import (
	"github.com/glowlabs-org/gca-backend/glow"
)

// C01/C12: a datagram signed by the device's own key, arbitrary fields, arbitrary
// clock and window offset. Natively replayable (real signature).
func verifH_C01_signed_by_device() {
	s := verifNewServer()
	pub, priv := verifKeyPair("dev")
	var ea glow.EquipmentAuthorization
	verifHavoc(&ea, "ea")
	ea.PublicKey = pub
	verifAddDevice(s, ea, "d0")
	offset := verifOffset("offset")
	s.equipmentReportsOffset = offset
	now := verifU32("now")
	verifSetClock(now)

	r := glow.EquipmentReport{ShortID: verifU32("r.id"), Timeslot: verifU32("r.ts"), PowerOutput: verifU64("r.power")}
	r.Signature = glow.Sign(r.SigningBytes(), priv)
	raw := r.Serialize()

	// acceptance predicate, written over wide integers
	ts, nw, off := int64(r.Timeslot), int64(now), int64(offset)
	accept := r.ShortID == ea.ShortID && ts-nw <= 432 && nw-ts <= 432 && off <= ts && ts < off+4032 && r.PowerOutput != 0 && r.PowerOutput != 1

	j := verifU32("j") // arbitrary observed slot
	verifAssume(j < 4032)
	pre := s.equipmentReports[ea.ShortID][j]
	preRecent := len(s.recentReports)
	preFile := verifFileLen(s, "equipment-reports.dat")
	verifAssume(preFile == 0)

	s.managedHandleEquipmentReport(raw)

	verifAssert(verifLocksHeld() == 0, "lock_released")
	post := s.equipmentReports[ea.ShortID][j]
	postFile := verifFileLen(s, "equipment-reports.dat")
	if !accept {
		verifAssert(post == pre, "rejected_leaves_slots_unchanged")
		verifAssert(len(s.recentReports) == preRecent, "rejected_leaves_recent_reports_unchanged")
		verifAssert(postFile == 0, "rejected_leaves_report_log_unchanged")
	} else {
		if int64(j) != ts-off {
			verifAssert(post == pre, "accepted_touches_only_its_slot")
		} else if pre.PowerOutput == 0 {
			// the comparisons also must not refuse what is acceptable (C20: correct for every clock value)
			verifAssert(post.PowerOutput != 0, "acceptable_report_is_recorded")
		}
		verifAssert(postFile == 0 || postFile == 80, "log_grows_by_one_record_at_most")
	}
	verifAssert(s.equipmentReportsOffset == offset, "offset_unchanged")
	verifReach("end")
}

// Arbitrary bytes of arbitrary length 0..200 through the listener's size check;
// Verify is an uninterpreted function here, so "signed by any other key" is
// covered by the shape of the claim: a change requires Verify(device key, exactly
// the signing bytes of the leading 80 bytes, their signature) to hold.
func verifH_C01_arbitrary_bytes() {
	s := verifNewServer()
	var ea glow.EquipmentAuthorization
	verifHavoc(&ea, "ea")
	verifAddDevice(s, ea, "d0")
	offset := verifOffset("offset")
	s.equipmentReportsOffset = offset
	now := verifU32("now")
	verifSetClock(now)
	dgram := verifBytes("dgram", 200)

	// the UDP read into an 80-byte buffer keeps min(len, 80) bytes
	buffer := make([]byte, equipmentReportSize)
	readBytes := copy(buffer, dgram)

	j := verifU32("j")
	verifAssume(j < 4032)
	pre := s.equipmentReports[ea.ShortID][j]
	preRecent := len(s.recentReports)

	if readBytes == equipmentReportSize { // threadedListenUDP's size check
		s.managedHandleEquipmentReport(buffer)
	}

	post := s.equipmentReports[ea.ShortID][j]
	id := uint32(buffer[0]) | uint32(buffer[1])<<8 | uint32(buffer[2])<<16 | uint32(buffer[3])<<24
	tsu := uint32(buffer[4]) | uint32(buffer[5])<<8 | uint32(buffer[6])<<16 | uint32(buffer[7])<<24
	var p uint64
	for k := 0; k < 8; k++ {
		p |= uint64(buffer[8+k]) << (8 * uint(k))
	}
	var sig glow.Signature
	copy(sig[:], buffer[16:80])
	msg := append([]byte("EquipmentReport"), buffer[0:16]...)
	ts, nw, off := int64(tsu), int64(now), int64(offset)
	accept := len(dgram) >= 80 && id == ea.ShortID && glow.Verify(ea.PublicKey, msg, sig) &&
		ts-nw <= 432 && nw-ts <= 432 && off <= ts && ts < off+4032 && p != 0 && p != 1
	if !accept {
		verifAssert(post == pre, "unaccepted_datagram_leaves_slots_unchanged")
		verifAssert(len(s.recentReports) == preRecent, "unaccepted_datagram_leaves_recent_reports_unchanged")
	} else if int64(j) != ts-off {
		verifAssert(post == pre, "accepted_touches_only_its_slot")
	}
	verifAssert(verifLocksHeld() == 0, "lock_released")
	verifReach("end")
}
