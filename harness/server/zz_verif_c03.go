//go:build verif

package server

import (
	"github.com/glowlabs-org/gca-backend/glow"
)

// C03 (immutability): an archived week is identical after any statistics
// request, whatever its parameters.
func verifH_C03_archived_week_unchanged_by_stats_request() {
	s := verifNewServer()
	var ea glow.EquipmentAuthorization
	verifHavoc(&ea, "ea")
	verifAddDevice(s, ea, "d0")
	var ds DeviceStats
	verifHavoc(&ds, "arch")
	if !verifSymbolic() {
		// natively the handler picks its slots at random: give every slot the same model value,
		// so that whichever slots it picks are eligible
		v := ds.PowerOutputs[0]
		for i := range ds.PowerOutputs {
			if ds.PowerOutputs[i] > v {
				v = ds.PowerOutputs[i]
			}
		}
		for i := range ds.PowerOutputs {
			ds.PowerOutputs[i] = v
		}
	}
	s.equipmentStatsHistory = []AllDeviceStats{{Devices: []DeviceStats{ds}, TimeslotOffset: 0}}
	s.equipmentReportsOffset = 2016
	pre := ds.PowerOutputs

	tso := uint32(2016 * verifCase("requested_week", 0, verifTier(0, 2))) // archived week (quick); also first and second live week (thorough)
	query := map[string]string{"timeslot_offset": verifIntTokenOf("tso", int64(tso))}
	switch verifCase("false_negatives", verifTier(1, 0), 2) {
	case 1:
		query["insert_false_negatives"] = "true"
	case 2:
		query["insert_false_negatives"] = verifStr("ifn", 4) // any value of the parameter up to 4 bytes ("1", "t", "TRUE", ...)
	}
	w := &verifRW{}
	s.AllDeviceStatsHandler(w, verifRequest("GET", query, nil))

	verifAssert(verifLocksHeld() == 0, "lock_released")
	verifAssert(len(s.equipmentStatsHistory) == 1 && len(s.equipmentStatsHistory[0].Devices) == 1, "archive_shape_unchanged")
	if verifSymbolic() {
		for k := 0; k < 2016; k++ { // every slot: one obligation each
			verifAssert(s.equipmentStatsHistory[0].Devices[0].PowerOutputs[k] == pre[k], "archived_week_unchanged_by_stats_request")
		}
	} else {
		same := true
		for i := range s.equipmentStatsHistory[0].Devices[0].PowerOutputs {
			if s.equipmentStatsHistory[0].Devices[0].PowerOutputs[i] != pre[i] {
				same = false
			}
		}
		verifAssert(same, "archived_week_unchanged_by_stats_request")
	}
	verifAssert(s.equipmentStatsHistory[0].TimeslotOffset == 0, "archive_label_unchanged")
	verifReach("end")
}

// C03 (routing): misaligned and future weeks are refused; archived, first
// live and second live weeks are served.
func verifH_C03_routing() {
	s := verifNewServer()
	var ea glow.EquipmentAuthorization
	verifHavoc(&ea, "ea")
	verifAddDevice(s, ea, "d0")
	var ds DeviceStats
	verifHavoc(&ds, "arch")
	s.equipmentStatsHistory = []AllDeviceStats{{Devices: []DeviceStats{ds}, TimeslotOffset: 0}}
	s.equipmentReportsOffset = 2016
	tso := verifU32("tso")
	ok := verifBool("tso.ok")
	_ = ok
	query := map[string]string{"timeslot_offset": verifIntTokenOf("tso", int64(tso))}
	w := &verifRW{}
	s.AllDeviceStatsHandler(w, verifRequest("GET", query, nil))
	served := w.status == 0 || w.status == 200
	if !verifBool("tso.ok") {
		verifAssert(!served, "unparseable_offset_refused")
	} else {
		switch {
		case tso%2016 != 0:
			verifAssert(!served, "misaligned_week_refused")
		case tso > 2016+2016:
			verifAssert(!served, "future_week_refused")
		default:
			verifAssert(served, "archived_and_live_weeks_served")
		}
	}
	verifReach("end")
}

// C03 (live weeks): the statistics built for either live week carry, for each
// slot, exactly the stored power value and impact rate, the device's key, the
// requested label and the server's signature over the signing bytes.
func verifH_C03_live_week_content() {
	s := verifNewServer()
	pub, priv := verifKeyPair("server")
	s.staticPublicKey, s.staticPrivateKey = pub, priv
	var ea glow.EquipmentAuthorization
	verifHavoc(&ea, "ea")
	verifAddDevice(s, ea, "d0")
	offset := uint32(2016 * verifCase("week", 0, verifTier(1, 3))) // concrete window offsets (wrap-around arithmetic is C20's subject)
	s.equipmentReportsOffset = offset
	second := verifCase("second_week", 0, 1)
	tso := offset + uint32(2016*second)
	rep := s.equipmentReports[ea.ShortID]
	rate := s.equipmentImpactRate[ea.ShortID]

	ads, err := s.buildDeviceStats(tso)

	verifAssert(err == nil, "live_week_is_built")
	verifAssert(len(ads.Devices) == 1 && ads.TimeslotOffset == tso, "one_record_per_device_and_label")
	if len(ads.Devices) == 1 {
		verifAssert(ads.Devices[0].PublicKey == ea.PublicKey, "device_key")
		for k := 0; k < 2016; k++ { // every slot, one (syntactically decided) obligation each
			verifAssert(ads.Devices[0].PowerOutputs[k] == rep[2016*second+k].PowerOutput, "power_values_equal_stored_reports")
			verifAssert(verifF64Bits(ads.Devices[0].ImpactRates[k]) == verifF64Bits(rate[2016*second+k]), "impact_rates_equal_stored_rates")
		}
	}
	if verifTier(0, 1) == 1 {
		// (two 32 KB messages; the solver needs ~50 s per case to see that they are equal)
		verifAssert(ads.Signature == glow.Sign(ads.SigningBytes(), priv), "signed_by_server_key_over_signing_bytes")
	}
	verifReach("end")
}

// C03 (rotation): one migrateReports step from an arbitrary state.
func verifH_C03_rotation_step() {
	s := verifNewServer()
	pub, priv := verifKeyPair("server")
	s.staticPublicKey, s.staticPrivateKey = pub, priv
	var ea glow.EquipmentAuthorization
	verifHavoc(&ea, "ea")
	verifAddDevice(s, ea, "d0")
	offset := uint32(2016 * verifCase("week", 0, verifTier(1, 3))) // concrete window offsets (wrap-around arithmetic is C20's subject)
	s.equipmentReportsOffset = offset
	rep := s.equipmentReports[ea.ShortID]
	rate := s.equipmentImpactRate[ea.ShortID]
	preRep, preRate := *rep, *rate
	preFile := verifFileLen(s, AllDeviceStatsHistoryFile)
	verifAssume(preFile == 0)

	s.migrateReports("u", "p")

	verifAssert(verifLocksHeld() == 0, "lock_released")
	verifAssert(s.equipmentReportsOffset == offset+2016, "offset_advances_one_week")
	verifAssert(len(s.equipmentStatsHistory) == 1, "one_week_archived")
	if len(s.equipmentStatsHistory) == 1 {
		a := s.equipmentStatsHistory[0]
		verifAssert(a.TimeslotOffset == offset && len(a.Devices) == 1, "archived_week_label_and_devices")
		if len(a.Devices) == 1 {
			for k := 0; k < 2016; k++ { // every slot: one obligation each
				verifAssert(a.Devices[0].PowerOutputs[k] == preRep[k].PowerOutput, "archived_value_is_first_week_value")
				verifAssert(verifF64Bits(a.Devices[0].ImpactRates[k]) == verifF64Bits(preRate[k]), "archived_rate_is_first_week_rate")
			}
		}
	}
	for k := 0; k < 2016; k++ {
		verifAssert(rep[k] == preRep[2016+k], "second_week_moves_to_first")
		verifAssert(verifF64Bits(rate[k]) == verifF64Bits(preRate[2016+k]), "second_week_rates_move_to_first")
		verifAssert(rep[2016+k] == glow.EquipmentReport{}, "second_week_blanked")
		verifAssert(verifF64Bits(rate[2016+k]) == 0, "second_week_rates_blanked")
	}
	verifAssert(verifFileLen(s, AllDeviceStatsHistoryFile) == 4+32+8*2*2016+4+64, "archive_record_appended_to_disk")
	verifReach("end")
}
