#!/usr/bin/env python3
"""Regenerates MANIFEST.json from props.py (claimed properties) and properties.jsonl."""
import json, os, sys
sys.path.insert(0, os.path.dirname(os.path.abspath(__file__)))
from props import PROPS, NOT_APPLICABLE

ids = [json.loads(l)["id"] for l in open("properties.jsonl")]
checks = []
for pid in ids:
    if pid not in PROPS or PROPS[pid].get("disabled"):
        continue
    c = PROPS[pid]
    checks.append({
        "property_id": pid,
        "quick_cmd": "./check %s --tier quick" % pid,
        "thorough_cmd": "./check %s --tier thorough" % pid,
        "evidence_file": "evidence/%s.json" % pid,
        "replay_cmd_template": "./check --replay {path} --harness <harness named in the file> --pkg <glow|server|client> --tags 'verif,test'",
        "engine": "gosym",
        "level_claimed": {
            "category": "model_checking",
            "text": c.get("level_text", "Bounded symbolic verification: the real functions are executed symbolically from go/ssa of /repo's current tree; every assertion, Go run-time check and lock rule is an SMT obligation decided for all inputs within the stated bounds (unsat = holds, sat = concrete counterexample replayed against the real build)."),
            "design_ref": c.get("design_ref", "DESIGN.md section 8/" + pid),
        },
        "level_note": c.get("level_note", "Trusted: gosym's SSA->SMT translation (validated by native replay of counterexamples and translator-validation vectors), the stub contracts listed in the evidence, z3/cvc5. Bounds and what lies outside them are listed in the evidence."),
        "technique": c.get("technique", "solver-based bounded symbolic execution of Go SSA (SMT: z3 / cvc5), counterexample replay on the real build"),
    })
na = [{"property_id": i, "reason": NOT_APPLICABLE.get(i, "check not built yet (work in progress; see DESIGN.md section 8)")} for i in ids if i not in {c["property_id"] for c in checks}]
m = {
    "version": 1,
    "setup_cmd": "./setup.sh",
    "hooks": {"guard": "verif", "enable": "harness files are injected through go/packages overlays (gosym) and `go test -overlay` (replay) under build tag `verif`; /repo itself carries no hook code", "baseline_off_cmd": "cd /repo && go test -json -vet=off -count=1 -timeout 25m ./...", "source_commits": [], "add_only": True},
    "engines": [{"name": "gosym", "path": "engine", "serves_properties": [c["property_id"] for c in checks], "kind_free_text": "SSA->SMT-LIB2 bounded symbolic executor for Go (go/ssa), z3/cvc5 back-ends"}],
    "checks": checks,
    "notes": "See DESIGN.md. Exit codes of ./check: 0 held, 1 VIOLATION (reproduced), 2 INCONCLUSIVE (never a success).",
    "not_applicable": na,
}
json.dump(m, open("MANIFEST.json", "w"), indent=1)
print("claimed:", [c["property_id"] for c in checks])
