package main

// Symbolic values. All values are immutable; updates are functional.

import (
	"fmt"
	"go/types"
	"math/big"
	"strings"

	"golang.org/x/tools/go/ssa"
)

type Value interface{}

type StructV struct{ F []Value }
type ArrayV struct {
	E []Value
	T types.Type // element type (needed only for reads from empty arrays)
}

// BigArrV is an SMT-array backed Go array/backing store whose element type
// flattens into fixed-width leaves (one SMT array per leaf).
type BigArrV struct {
	N      *Term // number of elements (bv64, may be symbolic)
	Leaves []*Term
	Elem   types.Type
}

type Step struct {
	Field int   // >=0: struct field
	Idx   *Term // when Field == -1: array index (bv64)
}

type Loc struct {
	Obj  int
	Path []Step
}

type PtrAlt struct {
	G *Term
	L *Loc // nil = nil pointer
}
type PtrV struct{ A []PtrAlt }

type SliceAlt struct {
	G             *Term
	Base          *Loc // nil = nil slice
	Off, Len, Cap *Term
}
type SliceV struct{ A []SliceAlt }

type StrV struct {
	B   []*Term
	Len *Term
	Tok *tokInfo // numeric-token view used by the strconv stubs (nil: none)
}

// tokInfo: what strconv makes of the string (harness-declared tokens).
type tokInfo struct {
	IntOK, FloatOK *Term
	IntVal, FloatBits *Term
}

type MapAlt struct {
	G   *Term
	Obj int // 0 = nil map
}
type MapV struct{ A []MapAlt }

type MapEnt struct {
	K Value
	V Value
	P *Term
}
type MapObj struct {
	Ents []MapEnt
	T    *types.Map
}

type IfaceAlt struct {
	G *Term
	T types.Type // nil = nil interface
	V Value
}
type IfaceV struct{ A []IfaceAlt }

type FuncAlt struct {
	G     *Term
	Fn    *ssa.Function // nil = nil func
	Binds []Value
	Name  string // builtin / bound method name for stubs
	Recv  Value
}
type FuncV struct{ A []FuncAlt }

type TupleV struct{ E []Value }

// OpaqueV is an engine-level handle (iterators, ghost handles).
type OpaqueV struct {
	Kind string
	Data interface{}
}

// ---- type helpers ----

func basicWidth(b *types.Basic) (int, bool) {
	switch b.Kind() {
	case types.Bool, types.UntypedBool:
		return 0, false
	case types.Int8:
		return 8, true
	case types.Int16:
		return 16, true
	case types.Int32, types.UntypedRune:
		return 32, true
	case types.Int64, types.Int, types.UntypedInt:
		return 64, true
	case types.Uint8:
		return 8, false
	case types.Uint16:
		return 16, false
	case types.Uint32:
		return 32, false
	case types.Uint64, types.Uint, types.Uintptr:
		return 64, false
	case types.Float64, types.UntypedFloat:
		return 64, false
	case types.Float32:
		return 32, false
	}
	return -2, false
}

func isFloat(t types.Type) bool {
	b, ok := t.Underlying().(*types.Basic)
	return ok && b.Info()&types.IsFloat != 0
}
func isString(t types.Type) bool {
	b, ok := t.Underlying().(*types.Basic)
	return ok && b.Info()&types.IsString != 0
}
func isSigned(t types.Type) bool {
	b, ok := t.Underlying().(*types.Basic)
	if !ok {
		return false
	}
	_, s := basicWidth(b)
	return s
}
func isUnsignedInt(t types.Type) bool {
	b, ok := t.Underlying().(*types.Basic)
	return ok && b.Info()&types.IsInteger != 0 && b.Info()&types.IsUnsigned != 0
}
func scalarWidth(t types.Type) int {
	b, ok := t.Underlying().(*types.Basic)
	if !ok {
		return -2
	}
	w, _ := basicWidth(b)
	return w
}

const bigArrThreshold = 4032

type leaf struct {
	W int
}

// flatLeaves returns the leaf widths of a flat (pointer-free) type; ok=false otherwise.
func flatLeaves(t types.Type) ([]int, bool) {
	switch u := t.Underlying().(type) {
	case *types.Basic:
		w := scalarWidth(t)
		if w == 0 {
			return []int{1}, true // bool as 1 bit
		}
		if w > 0 && !isString(t) {
			return []int{w}, true
		}
		return nil, false
	case *types.Array:
		el, ok := flatLeaves(u.Elem())
		if !ok {
			return nil, false
		}
		n := int(u.Len())
		if len(el) == 1 && el[0]*n <= 512 {
			return []int{el[0] * n}, true // packed
		}
		var out []int
		for i := 0; i < n; i++ {
			out = append(out, el...)
		}
		return out, true
	case *types.Struct:
		var out []int
		for i := 0; i < u.NumFields(); i++ {
			l, ok := flatLeaves(u.Field(i).Type())
			if !ok {
				return nil, false
			}
			out = append(out, l...)
		}
		return out, true
	}
	return nil, false
}

// packLeaves flattens a value of flat type t into leaf terms.
func packLeaves(v Value, t types.Type) []*Term {
	switch u := t.Underlying().(type) {
	case *types.Basic:
		tm := v.(*Term)
		if tm.W == 0 {
			return []*Term{Ite(tm, BVu(1, 1), BVu(0, 1))}
		}
		return []*Term{tm}
	case *types.Array:
		el, _ := flatLeaves(u.Elem())
		n := int(u.Len())
		av := v.(*ArrayV)
		if len(el) == 1 && el[0]*n <= 512 {
			var acc *Term
			for i := 0; i < n; i++ {
				p := packLeaves(av.E[i], u.Elem())[0]
				if acc == nil {
					acc = p
				} else {
					acc = Concat(p, acc) // element 0 in the low bits
				}
			}
			if acc == nil {
				return nil
			}
			return []*Term{acc}
		}
		var out []*Term
		for i := 0; i < n; i++ {
			out = append(out, packLeaves(av.E[i], u.Elem())...)
		}
		return out
	case *types.Struct:
		sv := v.(*StructV)
		var out []*Term
		for i := 0; i < u.NumFields(); i++ {
			out = append(out, packLeaves(sv.F[i], u.Field(i).Type())...)
		}
		return out
	}
	panic("packLeaves: not flat")
}

func unpackLeaves(ls []*Term, t types.Type) (Value, []*Term) {
	switch u := t.Underlying().(type) {
	case *types.Basic:
		tm := ls[0]
		if scalarWidth(t) == 0 {
			return Eq(tm, BVu(1, 1)), ls[1:]
		}
		return tm, ls[1:]
	case *types.Array:
		el, _ := flatLeaves(u.Elem())
		n := int(u.Len())
		es := make([]Value, n)
		if len(el) == 1 && el[0]*n <= 512 {
			if n == 0 {
				return &ArrayV{}, ls
			}
			w := el[0]
			for i := 0; i < n; i++ {
				es[i], _ = unpackLeaves([]*Term{Extract(ls[0], w*i+w-1, w*i)}, u.Elem())
			}
			return &ArrayV{E: es}, ls[1:]
		}
		for i := 0; i < n; i++ {
			es[i], ls = unpackLeaves(ls, u.Elem())
		}
		return &ArrayV{E: es}, ls
	case *types.Struct:
		fs := make([]Value, u.NumFields())
		for i := range fs {
			fs[i], ls = unpackLeaves(ls, u.Field(i).Type())
		}
		return &StructV{F: fs}, ls
	}
	panic("unpackLeaves: not flat")
}

func (b *BigArrV) get(idx *Term) Value {
	ls := make([]*Term, len(b.Leaves))
	for i, a := range b.Leaves {
		ls[i] = Select(a, idx)
	}
	v, _ := unpackLeaves(ls, b.Elem)
	return v
}

func (b *BigArrV) set(idx *Term, v Value) *BigArrV {
	ls := packLeaves(v, b.Elem)
	nb := &BigArrV{N: b.N, Elem: b.Elem, Leaves: make([]*Term, len(b.Leaves))}
	for i, a := range b.Leaves {
		if ls[i].Op == OpSelect && ls[i].Args[0] == a && ls[i].Args[1] == Resize(idx, 64, false) {
			nb.Leaves[i] = a
			continue
		}
		nb.Leaves[i] = Store(a, idx, ls[i])
	}
	return nb
}

func newBigArr(elem types.Type, n *Term, symName string) *BigArrV {
	ws, ok := flatLeaves(elem)
	if !ok {
		panic(unsupported("big array of non-flat element type " + elem.String()))
	}
	b := &BigArrV{N: n, Elem: elem}
	for i, w := range ws {
		if symName == "" {
			b.Leaves = append(b.Leaves, ConstArr(w, BVu(0, w)))
		} else {
			t := ArrVar(fmt.Sprintf("%s#%d", symName, i), w)
			t.Input = true
			b.Leaves = append(b.Leaves, t)
		}
	}
	return b
}

// pendingAssumes: range constraints of symbolic lengths created by symValue, added by the caller.
var pendingAssumes []*Term

type unsupportedErr struct {
	msg     string
	checked bool // an inner branch already showed that its path condition is feasible
}

func unsupported(m string) unsupportedErr { return unsupportedErr{msg: m} }

// zeroValue builds the zero value of t.
func zeroValue(t types.Type) Value {
	switch u := t.Underlying().(type) {
	case *types.Basic:
		if isString(t) {
			return &StrV{Len: BVu(0, 64)}
		}
		w := scalarWidth(t)
		if w == 0 {
			return False()
		}
		if w > 0 {
			return BVu(0, w)
		}
		if u.Kind() == types.UnsafePointer {
			return &PtrV{A: []PtrAlt{{G: True()}}}
		}
		if u.Kind() == types.UntypedNil {
			return nil
		}
		panic(unsupported("zero of basic " + t.String()))
	case *types.Struct:
		fs := make([]Value, u.NumFields())
		for i := range fs {
			fs[i] = zeroValue(u.Field(i).Type())
		}
		return &StructV{F: fs}
	case *types.Array:
		n := int(u.Len())
		if n >= bigArrThreshold {
			return newBigArr(u.Elem(), BVu(uint64(n), 64), "")
		}
		es := make([]Value, n)
		if n > 0 {
			z := zeroValue(u.Elem())
			for i := range es {
				es[i] = z
			}
		}
		return &ArrayV{E: es, T: u.Elem()}
	case *types.Pointer:
		return &PtrV{A: []PtrAlt{{G: True()}}}
	case *types.Slice:
		return &SliceV{A: []SliceAlt{{G: True(), Off: BVu(0, 64), Len: BVu(0, 64), Cap: BVu(0, 64)}}}
	case *types.Map:
		return &MapV{A: []MapAlt{{G: True()}}}
	case *types.Interface:
		return &IfaceV{A: []IfaceAlt{{G: True()}}}
	case *types.Signature:
		return &FuncV{A: []FuncAlt{{G: True()}}}
	case *types.Chan:
		return &OpaqueV{Kind: "chan"}
	case *types.Tuple:
		es := make([]Value, u.Len())
		for i := range es {
			es[i] = zeroValue(u.At(i).Type())
		}
		return &TupleV{E: es}
	}
	panic(unsupported("zero of " + t.String()))
}

// heapAlloc, when set, lets symValue build symbolic slices (bounded length) on the heap.
var heapAlloc func(v Value) *Loc

const havocStrMax = 3
const havocSliceMax = 2

// symValue builds a fully symbolic value of a pointer-free type; leaves are
// named name + path so that native replay can fill the same fields. Strings
// are symbolic with at most havocStrMax bytes, slices have at most
// havocSliceMax elements (stated bounds).
func symValue(t types.Type, name string) Value {
	switch u := t.Underlying().(type) {
	case *types.Basic:
		w := scalarWidth(t)
		if isString(t) {
			sv := &StrV{B: make([]*Term, havocStrMax), Len: InputVar(name+".len", 64)}
			for i := range sv.B {
				sv.B[i] = InputVar(fmt.Sprintf("%s[%d]", name, i), 8)
			}
			varBounds[name+".len"] = havocStrMax
			pendingAssumes = append(pendingAssumes, Ule(sv.Len, BVu(havocStrMax, 64)))
			return sv
		}
		if w == 0 {
			return InputBool(name)
		}
		if w > 0 {
			return InputVar(name, w)
		}
	case *types.Struct:
		fs := make([]Value, u.NumFields())
		for i := range fs {
			ft := u.Field(i).Type()
			switch ft.Underlying().(type) {
			case *types.Pointer, *types.Map, *types.Interface, *types.Signature, *types.Chan:
				fs[i] = zeroValue(ft)
				continue
			case *types.Slice:
				if heapAlloc == nil {
					fs[i] = zeroValue(ft)
					continue
				}
			}
			if n, ok := ft.(*types.Named); ok && n.Obj().Pkg() != nil && n.Obj().Pkg().Path() == "sync" {
				fs[i] = zeroValue(ft)
				continue
			}
			fs[i] = symValue(ft, name+"."+u.Field(i).Name())
		}
		return &StructV{F: fs}
	case *types.Slice:
		if heapAlloc == nil {
			return zeroValue(t)
		}
		es := make([]Value, havocSliceMax)
		for i := range es {
			es[i] = symValue(u.Elem(), fmt.Sprintf("%s[%d]", name, i))
		}
		l := heapAlloc(&ArrayV{E: es, T: u.Elem()})
		ln := InputVar(name+".len", 64)
		varBounds[name+".len"] = havocSliceMax
		pendingAssumes = append(pendingAssumes, Ule(ln, BVu(havocSliceMax, 64)))
		return singleSlice(l, BVu(0, 64), ln, ln)
	case *types.Array:
		n := int(u.Len())
		if n >= bigArrThreshold {
			return newBigArr(u.Elem(), BVu(uint64(n), 64), name)
		}
		es := make([]Value, n)
		if scalarWidth(u.Elem()) == 8 && n > 0 && n <= 64 {
			// byte arrays (keys, signatures): one packed variable, byte i = bits 8i..8i+7
			v := InputVar(name, 8*n)
			for i := range es {
				es[i] = Extract(v, 8*i+7, 8*i)
			}
			return &ArrayV{E: es, T: u.Elem()}
		}
		for i := range es {
			es[i] = symValue(u.Elem(), fmt.Sprintf("%s[%d]", name, i))
		}
		return &ArrayV{E: es, T: u.Elem()}
	}
	panic(unsupported("symbolic value of " + t.String()))
}

// ---- merging ----

func locKey(l *Loc) string {
	if l == nil {
		return "nil"
	}
	var sb strings.Builder
	fmt.Fprintf(&sb, "%d", l.Obj)
	for _, s := range l.Path {
		if s.Field >= 0 {
			fmt.Fprintf(&sb, ".%d", s.Field)
		} else {
			fmt.Fprintf(&sb, "[%d]", s.Idx.ID)
		}
	}
	return sb.String()
}

// mergeV returns ite(c, a, b) structurally.
func mergeV(c *Term, a, b Value) Value {
	if c.IsTrue() {
		return a
	}
	if c.IsFalse() {
		return b
	}
	if a == b {
		return a
	}
	if a == nil {
		return b
	}
	if b == nil {
		return a
	}
	switch x := a.(type) {
	case *Term:
		y, ok := b.(*Term)
		if !ok {
			panic(fmt.Sprintf("mergeV: %T vs %T", a, b))
		}
		return Ite(c, x, y)
	case *StructV:
		y := b.(*StructV)
		out := make([]Value, len(x.F))
		same := true
		for i := range x.F {
			out[i] = mergeV(c, x.F[i], y.F[i])
			if out[i] != x.F[i] {
				same = false
			}
		}
		if same {
			return x
		}
		return &StructV{F: out}
	case *ArrayV:
		y := b.(*ArrayV)
		out := make([]Value, len(x.E))
		for i := range x.E {
			if x.E[i] == y.E[i] {
				out[i] = x.E[i]
			} else {
				out[i] = mergeV(c, x.E[i], y.E[i])
			}
		}
		return &ArrayV{E: out, T: x.T}
	case *BigArrV:
		y := b.(*BigArrV)
		nb := &BigArrV{N: Ite(c, x.N, y.N), Elem: x.Elem, Leaves: make([]*Term, len(x.Leaves))}
		for i := range x.Leaves {
			nb.Leaves[i] = Ite(c, x.Leaves[i], y.Leaves[i])
		}
		return nb
	case *TupleV:
		y := b.(*TupleV)
		out := make([]Value, len(x.E))
		for i := range x.E {
			out[i] = mergeV(c, x.E[i], y.E[i])
		}
		return &TupleV{E: out}
	case *PtrV:
		y := b.(*PtrV)
		idx := map[string]int{}
		var out []PtrAlt
		add := func(g *Term, l *Loc) {
			if g.IsFalse() {
				return
			}
			k := locKey(l)
			if i, ok := idx[k]; ok {
				out[i].G = Or(out[i].G, g)
				return
			}
			idx[k] = len(out)
			out = append(out, PtrAlt{G: g, L: l})
		}
		for _, al := range x.A {
			add(And(c, al.G), al.L)
		}
		nc := Not(c)
		for _, al := range y.A {
			add(And(nc, al.G), al.L)
		}
		return &PtrV{A: out}
	case *SliceV:
		y := b.(*SliceV)
		idx := map[string]int{}
		var out []SliceAlt
		add := func(g *Term, al SliceAlt) {
			if g.IsFalse() {
				return
			}
			k := locKey(al.Base)
			if i, ok := idx[k]; ok {
				o := &out[i]
				o.Off = Ite(g, al.Off, o.Off)
				o.Len = Ite(g, al.Len, o.Len)
				o.Cap = Ite(g, al.Cap, o.Cap)
				o.G = Or(o.G, g)
				return
			}
			idx[k] = len(out)
			al.G = g
			out = append(out, al)
		}
		for _, al := range x.A {
			add(And(c, al.G), al)
		}
		nc := Not(c)
		for _, al := range y.A {
			add(And(nc, al.G), al)
		}
		return &SliceV{A: out}
	case *StrV:
		y := b.(*StrV)
		n := len(x.B)
		if len(y.B) > n {
			n = len(y.B)
		}
		out := &StrV{Len: Ite(c, x.Len, y.Len), B: make([]*Term, n)}
		if x.Tok != nil && y.Tok != nil {
			out.Tok = &tokInfo{IntOK: Ite(c, x.Tok.IntOK, y.Tok.IntOK), FloatOK: Ite(c, x.Tok.FloatOK, y.Tok.FloatOK),
				IntVal: Ite(c, x.Tok.IntVal, y.Tok.IntVal), FloatBits: Ite(c, x.Tok.FloatBits, y.Tok.FloatBits)}
		}
		for i := 0; i < n; i++ {
			xa, ya := BVu(0, 8), BVu(0, 8)
			if i < len(x.B) {
				xa = x.B[i]
			}
			if i < len(y.B) {
				ya = y.B[i]
			}
			out.B[i] = Ite(c, xa, ya)
		}
		return out
	case *MapV:
		y := b.(*MapV)
		idx := map[int]int{}
		var out []MapAlt
		add := func(g *Term, o int) {
			if g.IsFalse() {
				return
			}
			if i, ok := idx[o]; ok {
				out[i].G = Or(out[i].G, g)
				return
			}
			idx[o] = len(out)
			out = append(out, MapAlt{G: g, Obj: o})
		}
		for _, al := range x.A {
			add(And(c, al.G), al.Obj)
		}
		nc := Not(c)
		for _, al := range y.A {
			add(And(nc, al.G), al.Obj)
		}
		return &MapV{A: out}
	case *MapObj:
		y := b.(*MapObj)
		return mergeMapObj(c, x, y)
	case *IfaceV:
		y := b.(*IfaceV)
		var out []IfaceAlt
		add := func(g *Term, al IfaceAlt) {
			if g.IsFalse() {
				return
			}
			for i := range out {
				if (out[i].T == nil) == (al.T == nil) && (al.T == nil || types.Identical(out[i].T, al.T)) {
					if al.T != nil {
						out[i].V = mergeV(g, al.V, out[i].V)
					}
					out[i].G = Or(out[i].G, g)
					return
				}
			}
			al.G = g
			out = append(out, al)
		}
		for _, al := range x.A {
			add(And(c, al.G), al)
		}
		nc := Not(c)
		for _, al := range y.A {
			add(And(nc, al.G), al)
		}
		return &IfaceV{A: out}
	case *FuncV:
		y := b.(*FuncV)
		var out []FuncAlt
		for _, al := range x.A {
			g := And(c, al.G)
			if !g.IsFalse() {
				al.G = g
				out = append(out, al)
			}
		}
		nc := Not(c)
		for _, al := range y.A {
			g := And(nc, al.G)
			if g.IsFalse() {
				continue
			}
			merged := false
			for i := range out {
				if out[i].Fn == al.Fn && out[i].Name == al.Name && len(out[i].Binds) == len(al.Binds) {
					same := true
					for j := range al.Binds {
						if out[i].Binds[j] != al.Binds[j] {
							same = false
						}
					}
					if same {
						out[i].G = Or(out[i].G, g)
						merged = true
						break
					}
				}
			}
			if !merged {
				al.G = g
				out = append(out, al)
			}
		}
		return &FuncV{A: out}
	case *OpaqueV:
		return x
	}
	panic(fmt.Sprintf("mergeV: unhandled %T", a))
}

func mergeMapObj(c *Term, x, y *MapObj) *MapObj {
	out := &MapObj{T: x.T}
	n := len(x.Ents)
	if len(y.Ents) < n {
		n = len(y.Ents)
	}
	i := 0
	for ; i < n; i++ {
		ex, ey := x.Ents[i], y.Ents[i]
		if !sameValue(ex.K, ey.K) {
			break
		}
		out.Ents = append(out.Ents, MapEnt{K: ex.K, V: mergeV(c, ex.V, ey.V), P: Ite(c, ex.P, ey.P)})
	}
	for _, e := range x.Ents[i:] {
		out.Ents = append(out.Ents, MapEnt{K: e.K, V: e.V, P: And(c, e.P)})
	}
	nc := Not(c)
	for _, e := range y.Ents[i:] {
		out.Ents = append(out.Ents, MapEnt{K: e.K, V: e.V, P: And(nc, e.P)})
	}
	return out
}

// sameValue: syntactic identity of (flat) values.
func sameValue(a, b Value) bool {
	if a == b {
		return true
	}
	switch x := a.(type) {
	case *Term:
		y, ok := b.(*Term)
		return ok && x == y
	case *StructV:
		y, ok := b.(*StructV)
		if !ok || len(x.F) != len(y.F) {
			return false
		}
		for i := range x.F {
			if !sameValue(x.F[i], y.F[i]) {
				return false
			}
		}
		return true
	case *ArrayV:
		y, ok := b.(*ArrayV)
		if !ok || len(x.E) != len(y.E) {
			return false
		}
		for i := range x.E {
			if !sameValue(x.E[i], y.E[i]) {
				return false
			}
		}
		return true
	case *StrV:
		y, ok := b.(*StrV)
		if !ok || x.Len != y.Len {
			return false
		}
		n, okc := x.Len.ConstInt()
		if !okc {
			if len(x.B) != len(y.B) {
				return false
			}
			n = len(x.B)
		}
		for i := 0; i < n; i++ {
			if x.B[i] != y.B[i] {
				return false
			}
		}
		return true
	}
	return false
}

// eqValue returns the term for Go's a == b.
func eqValue(a, b Value, t types.Type) *Term {
	switch x := a.(type) {
	case *Term:
		y := b.(*Term)
		if t != nil && isFloat(t) {
			return FpEq(x, y)
		}
		return Eq(x, y)
	case *StructV:
		y := b.(*StructV)
		st, _ := t.Underlying().(*types.Struct)
		cs := make([]*Term, len(x.F))
		for i := range x.F {
			var ft types.Type
			if st != nil {
				ft = st.Field(i).Type()
			}
			cs[i] = eqValue(x.F[i], y.F[i], ft)
		}
		return And(cs...)
	case *ArrayV:
		y := b.(*ArrayV)
		var et types.Type
		if t != nil {
			if at, ok := t.Underlying().(*types.Array); ok {
				et = at.Elem()
			}
		}
		if len(x.E) > 1 && len(x.E) <= 64 {
			if xt, ok := x.E[0].(*Term); ok && xt.W == 8 {
				return Eq(bvFromBytes(x), bvFromBytes(y))
			}
		}
		cs := make([]*Term, len(x.E))
		for i := range x.E {
			cs[i] = eqValue(x.E[i], y.E[i], et)
		}
		return And(cs...)
	case *StrV:
		y := b.(*StrV)
		if lx, ok1 := x.Len.ConstInt(); ok1 {
			if ly, ok2 := y.Len.ConstInt(); ok2 {
				if lx != ly {
					return False()
				}
				if lx == 0 {
					return True()
				}
				if lx <= len(x.B) && lx <= len(y.B) && lx <= 4096 {
					var px, py *Term
					for i := 0; i < lx; i++ {
						if px == nil {
							px, py = x.B[i], y.B[i]
						} else {
							px, py = Concat(x.B[i], px), Concat(y.B[i], py)
						}
					}
					return Eq(px, py)
				}
			}
		}
		n := len(x.B)
		if len(y.B) < n {
			n = len(y.B)
		}
		cs := []*Term{Eq(x.Len, y.Len)}
		for i := 0; i < n; i++ {
			cs = append(cs, Or(Ule(x.Len, BVu(uint64(i), 64)), Eq(x.B[i], y.B[i])))
		}
		// lengths beyond the shorter buffer cannot be equal unless within both
		if len(x.B) != len(y.B) {
			cs = append(cs, Ule(x.Len, BVu(uint64(n), 64)))
		}
		return And(cs...)
	case *PtrV:
		y := b.(*PtrV)
		var ds []*Term
		for _, p := range x.A {
			for _, q := range y.A {
				if locKey(p.L) == locKey(q.L) {
					ds = append(ds, And(p.G, q.G))
				}
			}
		}
		return Or(ds...)
	case *IfaceV:
		y := b.(*IfaceV)
		var ds []*Term
		for _, p := range x.A {
			for _, q := range y.A {
				if p.T == nil && q.T == nil {
					ds = append(ds, And(p.G, q.G))
				} else if p.T != nil && q.T != nil && types.Identical(p.T, q.T) {
					ds = append(ds, And(p.G, q.G, eqValue(p.V, q.V, p.T)))
				}
			}
		}
		return Or(ds...)
	case *SliceV:
		// only comparison with nil is legal
		y := b.(*SliceV)
		var ds []*Term
		for _, p := range x.A {
			for _, q := range y.A {
				if p.Base == nil && q.Base == nil {
					ds = append(ds, And(p.G, q.G))
				}
			}
		}
		return Or(ds...)
	case *MapV:
		y := b.(*MapV)
		var ds []*Term
		for _, p := range x.A {
			for _, q := range y.A {
				if p.Obj == q.Obj {
					ds = append(ds, And(p.G, q.G))
				}
			}
		}
		return Or(ds...)
	case *FuncV:
		y := b.(*FuncV)
		var ds []*Term
		for _, p := range x.A {
			for _, q := range y.A {
				if p.Fn == nil && q.Fn == nil && p.Name == "" && q.Name == "" {
					ds = append(ds, And(p.G, q.G))
				}
			}
		}
		return Or(ds...)
	case *BigArrV:
		panic(unsupported("== on big arrays"))
	}
	panic(fmt.Sprintf("eqValue: unhandled %T", a))
}

// ---- functional access into value trees ----

// possibleConsts enumerates the values an index term can take when it is built
// from constants by ite and addition (e.g. the end offset of a file after a
// few conditional appends). ok=false when the term is not of that shape or has
// more than 48 values.
var pcMemo = map[int][]int{}

func possibleConsts(t *Term) ([]int, bool) {
	if v, ok := pcMemo[t.ID]; ok {
		return v, v != nil
	}
	var out []int
	ok := true
	switch t.Op {
	case OpConst:
		c, isI := t.ConstInt()
		if !isI {
			ok = false
		}
		out = []int{c}
	case OpIte:
		a, ok1 := possibleConsts(t.Args[1])
		b, ok2 := possibleConsts(t.Args[2])
		ok = ok1 && ok2
		out = unionInts(a, b)
	case OpAdd:
		a, ok1 := possibleConsts(t.Args[0])
		b, ok2 := possibleConsts(t.Args[1])
		ok = ok1 && ok2
		if ok {
			seen := map[int]bool{}
			for _, x := range a {
				for _, y := range b {
					v := x + y
					if t.W < 63 {
						v &= 1<<uint(t.W) - 1
					}
					if !seen[v] {
						seen[v] = true
						out = append(out, v)
					}
				}
			}
		}
	case OpZExt:
		out, ok = possibleConsts(t.Args[0])
	default:
		ok = false
	}
	if !ok || len(out) > 48 {
		pcMemo[t.ID] = nil
		return nil, false
	}
	pcMemo[t.ID] = out
	return out, true
}

func unionInts(a, b []int) []int {
	seen := map[int]bool{}
	var out []int
	for _, x := range a {
		if !seen[x] {
			seen[x] = true
			out = append(out, x)
		}
	}
	for _, x := range b {
		if !seen[x] {
			seen[x] = true
			out = append(out, x)
		}
	}
	return out
}

// readPath reads the sub-value at path inside root.
func readPath(root Value, path []Step) Value {
	v := root
	for pi, s := range path {
		if s.Field >= 0 {
			v = v.(*StructV).F[s.Field]
			continue
		}
		switch a := v.(type) {
		case *ArrayV:
			if k, ok := s.Idx.ConstInt(); ok {
				if k < 0 || k >= len(a.E) {
					// out of range: only under an infeasible guard (bounds obligations precede)
					if len(a.E) == 0 {
						if a.T == nil {
							panic(unsupported("read from empty array"))
						}
						v = zeroValue(a.T)
						continue
					}
					k = 0
				}
				v = a.E[k]
				continue
			}
			// symbolic index: ite chain over the candidate elements (of the remaining path)
			rest := path[pi+1:]
			var acc Value
			if cands, ok := possibleConsts(s.Idx); ok {
				for _, k := range cands {
					if k < 0 || k >= len(a.E) {
						continue
					}
					ev := readPath(a.E[k], rest)
					if acc == nil {
						acc = ev
					} else {
						acc = mergeV(Eq(s.Idx, BVu(uint64(k), 64)), ev, acc)
					}
				}
				if acc != nil {
					return acc
				}
			}
			for k := len(a.E) - 1; k >= 0; k-- {
				ev := readPath(a.E[k], rest)
				if acc == nil {
					acc = ev
				} else {
					acc = mergeV(Eq(s.Idx, BVu(uint64(k), 64)), ev, acc)
				}
			}
			if acc == nil {
				if a.T == nil {
					panic(unsupported("symbolic read from empty array"))
				}
				return readPath(zeroValue(a.T), rest)
			}
			return acc
		case *BigArrV:
			v = a.get(s.Idx)
		default:
			panic(fmt.Sprintf("readPath: index into %T", v))
		}
	}
	return v
}

// writePath returns root with the sub-value at path replaced by nv.
func writePath(root Value, path []Step, nv Value) Value {
	if len(path) == 0 {
		return nv
	}
	s := path[0]
	if s.Field >= 0 {
		sv := root.(*StructV)
		out := make([]Value, len(sv.F))
		copy(out, sv.F)
		out[s.Field] = writePath(sv.F[s.Field], path[1:], nv)
		return &StructV{F: out}
	}
	switch a := root.(type) {
	case *ArrayV:
		out := make([]Value, len(a.E))
		copy(out, a.E)
		if k, ok := s.Idx.ConstInt(); ok {
			if k < 0 || k >= len(a.E) {
				return root // infeasible (bounds obligation already emitted)
			}
			out[k] = writePath(a.E[k], path[1:], nv)
			return &ArrayV{E: out, T: a.T}
		}
		if cands, ok := possibleConsts(s.Idx); ok {
			for _, k := range cands {
				if k >= 0 && k < len(out) {
					out[k] = mergeV(Eq(s.Idx, BVu(uint64(k), 64)), writePath(a.E[k], path[1:], nv), a.E[k])
				}
			}
			return &ArrayV{E: out, T: a.T}
		}
		for k := range out {
			out[k] = mergeV(Eq(s.Idx, BVu(uint64(k), 64)), writePath(a.E[k], path[1:], nv), a.E[k])
		}
		return &ArrayV{E: out, T: a.T}
	case *BigArrV:
		if len(path) == 1 {
			return a.set(s.Idx, nv)
		}
		el := a.get(s.Idx)
		return a.set(s.Idx, writePath(el, path[1:], nv))
	}
	panic(fmt.Sprintf("writePath: index into %T", root))
}

func extendLoc(l *Loc, s Step) *Loc {
	np := make([]Step, len(l.Path)+1)
	copy(np, l.Path)
	np[len(l.Path)] = s
	return &Loc{Obj: l.Obj, Path: np}
}

// ---- constants ----

func strConst(s string) *StrV {
	b := make([]*Term, len(s))
	for i := 0; i < len(s); i++ {
		b[i] = BVu(uint64(s[i]), 8)
	}
	return &StrV{B: b, Len: BVu(uint64(len(s)), 64)}
}

// concreteString returns the Go string when fully concrete.
func (s *StrV) concrete() (string, bool) {
	n, ok := s.Len.ConstInt()
	if !ok || n > len(s.B) {
		return "", false
	}
	bs := make([]byte, n)
	for i := 0; i < n; i++ {
		if s.B[i].Op != OpConst {
			return "", false
		}
		bs[i] = byte(s.B[i].Uint64())
	}
	return string(bs), true
}

func bigFromInt64(i int64) *big.Int { return big.NewInt(i) }

func singlePtr(l *Loc) *PtrV { return &PtrV{A: []PtrAlt{{G: True(), L: l}}} }
func singleSlice(base *Loc, off, ln, cp *Term) *SliceV {
	return &SliceV{A: []SliceAlt{{G: True(), Base: base, Off: off, Len: ln, Cap: cp}}}
}
func singleIface(t types.Type, v Value) *IfaceV { return &IfaceV{A: []IfaceAlt{{G: True(), T: t, V: v}}} }
func nilIface() *IfaceV                        { return &IfaceV{A: []IfaceAlt{{G: True()}}} }
func singleMap(obj int) *MapV                  { return &MapV{A: []MapAlt{{G: True(), Obj: obj}}} }
func singleFunc(fn *ssa.Function, binds []Value) *FuncV {
	return &FuncV{A: []FuncAlt{{G: True(), Fn: fn, Binds: binds}}}
}
