package main

// Intrinsics of the harness language and environment stubs. Every stub is part
// of the claim and is listed in the evidence when hit.

import (
	"fmt"
	"go/types"
	"math/big"
	"strings"
)

func argTerm(v Value) *Term { return v.(*Term) }

func (e *Engine) ghostTerm(st *State, key string, def func() *Term) *Term {
	if v, ok := st.ghost[key]; ok {
		return v.(*Term)
	}
	t := def()
	st.ghost[key] = t
	return t
}

func (e *Engine) noteAssumption(s string) { e.assumptions[s] = true }

func (e *Engine) installStubs() {
	S := e.stubs
	// ---------- intrinsics ----------
	scalar := func(w int) StubFn {
		return func(e *Engine, st *State, c *callInfo, a []Value) Value {
			return InputVar(mustConcreteStr(a[0], "verif scalar name"), w)
		}
	}
	S["verif:verifU8"] = scalar(8)
	S["verif:verifU16"] = scalar(16)
	S["verif:verifU32"] = scalar(32)
	S["verif:verifU64"] = scalar(64)
	S["verif:verifI64"] = scalar(64)
	S["verif:verifI32"] = scalar(32)
	S["verif:verifInt"] = scalar(64)
	S["verif:verifF64"] = scalar(64)
	S["verif:verifBool"] = func(e *Engine, st *State, c *callInfo, a []Value) Value {
		return InputBool(mustConcreteStr(a[0], "verifBool name"))
	}
	S["verif:verifAssume"] = func(e *Engine, st *State, c *callInfo, a []Value) Value {
		st.assume(argTerm(a[0]))
		return nil
	}
	S["verif:verifAssert"] = func(e *Engine, st *State, c *callInfo, a []Value) Value {
		label := mustConcreteStr(a[1], "verifAssert label")
		e.addObl(st, "assert", label, c.site, argTerm(a[0]))
		st.assumeProved(argTerm(a[0]))
		return nil
	}
	S["verif:verifReach"] = func(e *Engine, st *State, c *callInfo, a []Value) Value {
		label := mustConcreteStr(a[0], "verifReach label")
		e.addObl(st, "reach", "reach:"+label, c.site, True())
		return nil
	}
	S["verif:verifHavoc"] = func(e *Engine, st *State, c *callInfo, a []Value) Value {
		name := mustConcreteStr(a[1], "verifHavoc name")
		iv := a[0].(*IfaceV)
		if len(iv.A) != 1 || iv.A[0].T == nil {
			panic(unsupported("verifHavoc: argument must be a non-nil pointer"))
		}
		pt, ok := iv.A[0].T.Underlying().(*types.Pointer)
		if !ok {
			panic(unsupported("verifHavoc: argument must be a pointer"))
		}
		p := iv.A[0].V.(*PtrV)
		heapAlloc = func(v Value) *Loc { return e.alloc(st, v) }
		pendingAssumes = nil
		val := symValue(pt.Elem(), name)
		heapAlloc = nil
		for _, a := range pendingAssumes {
			st.assume(a)
		}
		pendingAssumes = nil
		e.store(st, p, val, c.site)
		return nil
	}
	S["verif:verifBytes"] = func(e *Engine, st *State, c *callInfo, a []Value) Value {
		name := mustConcreteStr(a[0], "verifBytes name")
		mx, ok := argTerm(a[1]).ConstInt()
		if !ok {
			panic(unsupported("verifBytes: max must be concrete"))
		}
		es := make([]Value, mx)
		for i := range es {
			es[i] = InputVar(fmt.Sprintf("%s[%d]", name, i), 8)
		}
		l := e.alloc(st, &ArrayV{E: es})
		ln := InputVar(name+".len", 64)
		varBounds[name+".len"] = mx
		st.assume(Ule(ln, BVu(uint64(mx), 64)))
		e.bounds["len("+name+")"] = fmt.Sprintf("0..%d", mx)
		return singleSlice(l, BVu(0, 64), ln, ln)
	}
	S["verif:verifBytesN"] = func(e *Engine, st *State, c *callInfo, a []Value) Value {
		name := mustConcreteStr(a[0], "verifBytesN name")
		n, ok := argTerm(a[1]).ConstInt()
		if !ok {
			panic(unsupported("verifBytesN: n must be concrete"))
		}
		es := make([]Value, n)
		for i := range es {
			es[i] = InputVar(fmt.Sprintf("%s[%d]", name, i), 8)
		}
		l := e.alloc(st, &ArrayV{E: es})
		N := BVu(uint64(n), 64)
		return singleSlice(l, BVu(0, 64), N, N)
	}
	S["verif:verifBytesBig"] = func(e *Engine, st *State, c *callInfo, a []Value) Value {
		name := mustConcreteStr(a[0], "verifBytesBig name")
		mx, ok := argTerm(a[1]).ConstInt()
		if !ok {
			panic(unsupported("verifBytesBig: max must be concrete"))
		}
		arr := ArrVar(name, 8)
		arr.Input = true
		ln := InputVar(name+".len", 64)
		varBounds[name+".len"] = mx
		st.assume(Ule(ln, BVu(uint64(mx), 64)))
		e.bounds["len("+name+")"] = fmt.Sprintf("0..%d (SMT array, arbitrary content)", mx)
		l := e.alloc(st, &BigArrV{N: ln, Elem: types.Typ[types.Uint8], Leaves: []*Term{arr}})
		return singleSlice(l, BVu(0, 64), ln, ln)
	}
	S["verif:verifStr"] = func(e *Engine, st *State, c *callInfo, a []Value) Value {
		name := mustConcreteStr(a[0], "verifStr name")
		mx, ok := argTerm(a[1]).ConstInt()
		if !ok {
			panic(unsupported("verifStr: max must be concrete"))
		}
		s := &StrV{B: make([]*Term, mx)}
		for i := range s.B {
			s.B[i] = InputVar(fmt.Sprintf("%s[%d]", name, i), 8)
		}
		s.Len = InputVar(name+".len", 64)
		varBounds[name+".len"] = mx
		st.assume(Ule(s.Len, BVu(uint64(mx), 64)))
		e.bounds["len("+name+")"] = fmt.Sprintf("0..%d", mx)
		return s
	}
	S["verif:verifCase"] = func(e *Engine, st *State, c *callInfo, a []Value) Value {
		name := mustConcreteStr(a[0], "verifCase name")
		lo, ok1 := argTerm(a[1]).ConstInt()
		hi, ok2 := argTerm(a[2]).ConstInt()
		if !ok1 || !ok2 {
			panic(unsupported("verifCase: bounds must be concrete"))
		}
		if fv, ok := e.fixedCases[name]; ok {
			lo, hi = fv, fv
		}
		if _, ok := e.caseRanges[name]; !ok {
			e.caseRanges[name] = [2]int{lo, hi}
			e.caseOrder = append(e.caseOrder, name)
		}
		v, ok := e.caseVals[name]
		if !ok {
			v = lo
			e.caseVals[name] = lo
		}
		return BVi(int64(v), 64)
	}
	S["verif:verifSetClock"] = func(e *Engine, st *State, c *callInfo, a []Value) Value {
		st.ghost["clock"] = argTerm(a[0])
		return nil
	}
	S["verif:verifSetNowUnix"] = func(e *Engine, st *State, c *callInfo, a []Value) Value {
		st.ghost["now.sec"] = argTerm(a[0])
		st.ghost["clock.frozen"] = True()
		return nil
	}
	S["verif:verifSetNowNanos"] = func(e *Engine, st *State, c *callInfo, a []Value) Value {
		st.ghost["now.ns"] = argTerm(a[0])
		st.ghost["clock.frozen"] = True()
		return nil
	}
	S["verif:verifTime"] = func(e *Engine, st *State, c *callInfo, a []Value) Value {
		return mkTime(Fresh("time.sec", 64), argTerm(a[0]))
	}
	S["verif:verifNow"] = func(e *Engine, st *State, c *callInfo, a []Value) Value {
		return e.stubs["time.Now"](e, st, c, nil)
	}
	S["verif:verifLocksHeld"] = func(e *Engine, st *State, c *callInfo, a []Value) Value {
		return e.ghostTerm(st, "locks.held", func() *Term { return BVu(0, 64) })
	}
	S["verif:verifUseReal"] = func(e *Engine, st *State, c *callInfo, a []Value) Value {
		delete(e.stubs, mustConcreteStr(a[0], "verifUseReal"))
		return nil
	}
	S["verif:verifTier"] = func(e *Engine, st *State, c *callInfo, a []Value) Value {
		if e.tier == "thorough" {
			return a[1]
		}
		return a[0]
	}
	S["verif:verifFreshBool"] = func(e *Engine, st *State, c *callInfo, a []Value) Value {
		t := FreshBool("fresh")
		t.Input = true
		return t
	}
	S["verif:verifF64Bits"] = func(e *Engine, st *State, c *callInfo, a []Value) Value { return a[0] }
	S["verif:verifEnableModel"] = func(e *Engine, st *State, c *callInfo, a []Value) Value {
		e.enabledModels[mustConcreteStr(a[0], "verifEnableModel")] = true
		return nil
	}
	S["verif:verifSymbolic"] = func(e *Engine, st *State, c *callInfo, a []Value) Value { return True() }
	S["verif:verifNote"] = func(e *Engine, st *State, c *callInfo, a []Value) Value {
		e.noteAssumption(mustConcreteStr(a[0], "verifNote"))
		return nil
	}
	S["verif:verifBound"] = func(e *Engine, st *State, c *callInfo, a []Value) Value {
		e.bounds[mustConcreteStr(a[0], "verifBound")] = mustConcreteStr(a[1], "verifBound")
		return nil
	}
	// crypto model: deterministic UFs; key pairs by name
	S["verif:verifKeyPair"] = func(e *Engine, st *State, c *callInfo, a []Value) Value {
		name := mustConcreteStr(a[0], "verifKeyPair name")
		priv := InputVar("key:"+name+".priv", 256)
		pub := UF("PubOf", 256, priv)
		return &TupleV{E: []Value{bytesFromBV(pub, 32), bytesFromBV(priv, 32)}}
	}

	// ---------- glow crypto wrappers ----------
	S["github.com/glowlabs-org/gca-backend/glow.Sign"] = func(e *Engine, st *State, c *callInfo, a []Value) Value {
		arr, ln := e.msgArray(st, a[0].(*SliceV), c.site)
		priv := bvFromBytes(a[1].(*ArrayV))
		sig := UF("Sign", 512, arr, ln, priv)
		// instance axiom: Verify(PubOf(priv), msg, Sign(msg, priv)); omitted for
		// messages over 4096 bytes (weekly statistics), whose signatures are
		// never verified by the code under test
		if n, ok := ln.ConstInt(); !ok || n <= 4096 {
			st.assume(UF("Verify", 0, UF("PubOf", 256, priv), arr, ln, sig))
		}
		e.noteAssumption("glow.Sign/Verify are uninterpreted functions over (message bytes, length, key); Verify(PubOf(k), m, Sign(m,k)) holds; no unforgeability assumed")
		return bytesFromBV(sig, 64)
	}
	S["github.com/glowlabs-org/gca-backend/glow.Verify"] = func(e *Engine, st *State, c *callInfo, a []Value) Value {
		arr, ln := e.msgArray(st, a[1].(*SliceV), c.site)
		pk := bvFromBytes(a[0].(*ArrayV))
		sig := bvFromBytes(a[2].(*ArrayV))
		e.noteAssumption("glow.Sign/Verify are uninterpreted functions over (message bytes, length, key); Verify(PubOf(k), m, Sign(m,k)) holds; no unforgeability assumed")
		return UF("Verify", 0, pk, arr, ln, sig)
	}
	S["github.com/glowlabs-org/gca-backend/glow.GenerateKeyPair"] = func(e *Engine, st *State, c *callInfo, a []Value) Value {
		priv := Fresh("genkey.priv", 256)
		priv.Input = true
		pub := UF("PubOf", 256, priv)
		return &TupleV{E: []Value{bytesFromBV(pub, 32), bytesFromBV(priv, 32)}}
	}

	// ---------- clock ----------
	S["github.com/glowlabs-org/gca-backend/glow.CurrentTimeslot"] = func(e *Engine, st *State, c *callInfo, a []Value) Value {
		return e.ghostTerm(st, "clock", func() *Term { t := Fresh("clock", 32); t.Input = true; return t })
	}
	S["time.Now"] = func(e *Engine, st *State, c *callInfo, a []Value) Value {
		// monotone in both views; |ns| < 2^62
		prevNs, hasNs := st.ghost["now.ns"]
		prevSec, hasSec := st.ghost["now.sec"]
		if e.clockFrozen(st) && hasNs && hasSec {
			return mkTime(prevSec.(*Term), prevNs.(*Term))
		}
		ns := Fresh("now.ns", 64)
		ns.Input = true
		sec := Fresh("now.sec", 64)
		sec.Input = true
		lim := BV(new(big.Int).Lsh(bigOne, 62), 64)
		st.assume(And(Sle(BVu(0, 64), ns), Slt(ns, lim), Sle(BVu(0, 64), sec), Slt(sec, BVu(1<<40, 64))))
		if hasNs {
			if e.clockFrozen(st) {
				ns = prevNs.(*Term)
			} else {
				st.assume(Sle(prevNs.(*Term), ns))
			}
		}
		if hasSec {
			if e.clockFrozen(st) {
				sec = prevSec.(*Term)
			} else {
				st.assume(Sle(prevSec.(*Term), sec))
			}
		}
		st.ghost["now.ns"] = ns
		st.ghost["now.sec"] = sec
		e.noteAssumption("time.Now: arbitrary non-decreasing instants; nanosecond view (Add/After/Before/Sub) and second view (Unix) are independent symbolic values, 0 <= ns < 2^62")
		return mkTime(sec, ns)
	}
	S["(time.Time).Unix"] = func(e *Engine, st *State, c *callInfo, a []Value) Value {
		return a[0].(*StructV).F[0]
	}
	S["(time.Time).UnixNano"] = func(e *Engine, st *State, c *callInfo, a []Value) Value {
		return a[0].(*StructV).F[1]
	}
	S["(time.Time).Add"] = func(e *Engine, st *State, c *callInfo, a []Value) Value {
		t := a[0].(*StructV)
		return mkTime(Fresh("time.add.sec", 64), Add(t.F[1].(*Term), argTerm(a[1])))
	}
	S["(time.Time).After"] = func(e *Engine, st *State, c *callInfo, a []Value) Value {
		return Slt(a[1].(*StructV).F[1].(*Term), a[0].(*StructV).F[1].(*Term))
	}
	S["(time.Time).Before"] = func(e *Engine, st *State, c *callInfo, a []Value) Value {
		return Slt(a[0].(*StructV).F[1].(*Term), a[1].(*StructV).F[1].(*Term))
	}
	S["(time.Time).UTC"] = func(e *Engine, st *State, c *callInfo, a []Value) Value { return a[0] }
	S["(time.Time).Format"] = func(e *Engine, st *State, c *callInfo, a []Value) Value { return strConst("<time>") }
	S["time.Sleep"] = func(e *Engine, st *State, c *callInfo, a []Value) Value { return nil }
	S["time.Unix"] = func(e *Engine, st *State, c *callInfo, a []Value) Value {
		return mkTime(argTerm(a[0]), Fresh("time.unix.ns", 64))
	}

	// ---------- sync ----------
	S["(*sync.Mutex).Lock"] = func(e *Engine, st *State, c *callInfo, a []Value) Value {
		p := a[0].(*PtrV)
		// interference hook: before the lock is taken any other operation may run
		if f, ok := st.ghost["user:onlock"]; ok && !e.inHook {
			if fv, isF := f.(*FuncV); isF {
				e.inHook = true
				w := e.watchLocks
				e.watchLocks = false
				e.callback(st, c, fv, nil)
				e.watchLocks = w
				e.inHook = false
			}
		}
		held := e.load(st, fieldPtr(p, 0), c.site).(*Term)
		cnt := e.ghostTerm(st, "locks.held", func() *Term { return BVu(0, 64) })
		e.oblige(st, "lock", "lock-not-held@"+c.site, c.site, Eq(held, BVu(0, 32)))
		e.oblige(st, "lock", "no-lock-stacking@"+c.site, c.site, Eq(cnt, BVu(0, 64)))
		e.store(st, fieldPtr(p, 0), BVu(1, 32), c.site)
		st.ghost["locks.held"] = Add(cnt, BVu(1, 64))
		return nil
	}
	S["(*sync.Mutex).Unlock"] = func(e *Engine, st *State, c *callInfo, a []Value) Value {
		p := a[0].(*PtrV)
		held := e.load(st, fieldPtr(p, 0), c.site).(*Term)
		cnt := e.ghostTerm(st, "locks.held", func() *Term { return BVu(0, 64) })
		e.oblige(st, "lock", "unlock-of-held@"+c.site, c.site, Eq(held, BVu(1, 32)))
		e.store(st, fieldPtr(p, 0), BVu(0, 32), c.site)
		st.ghost["locks.held"] = Sub(cnt, BVu(1, 64))
		return nil
	}
	S["(*sync.Mutex).TryLock"] = func(e *Engine, st *State, c *callInfo, a []Value) Value {
		p := a[0].(*PtrV)
		held := e.load(st, fieldPtr(p, 0), c.site).(*Term)
		free := Eq(held, BVu(0, 32))
		cnt := e.ghostTerm(st, "locks.held", func() *Term { return BVu(0, 64) })
		e.store(st, fieldPtr(p, 0), Ite(free, BVu(1, 32), held), c.site)
		st.ghost["locks.held"] = Ite(free, Add(cnt, BVu(1, 64)), cnt)
		return free
	}
	S["sync/atomic.LoadUint32"] = func(e *Engine, st *State, c *callInfo, a []Value) Value { return e.load(st, a[0], c.site) }
	S["sync/atomic.LoadUint64"] = S["sync/atomic.LoadUint32"]
	S["sync/atomic.StoreUint32"] = func(e *Engine, st *State, c *callInfo, a []Value) Value {
		e.store(st, a[0], a[1], c.site)
		return nil
	}
	S["sync/atomic.StoreUint64"] = S["sync/atomic.StoreUint32"]

	// ---------- fmt / logging: no observable effect ----------
	errStub := func(e *Engine, st *State, c *callInfo, a []Value) Value { return e.newError(st, "error@"+c.site) }
	S["fmt.Errorf"] = errStub
	nop := func(e *Engine, st *State, c *callInfo, a []Value) Value { return nil }
	tupNop := func(e *Engine, st *State, c *callInfo, a []Value) Value {
		return &TupleV{E: []Value{BVu(0, 64), nilIface()}}
	}
	S["fmt.Println"] = tupNop
	S["fmt.Printf"] = tupNop
	S["fmt.Print"] = tupNop
	S["log.Println"] = nop
	S["log.Printf"] = nop
	S["fmt.Sprintf"] = func(e *Engine, st *State, c *callInfo, a []Value) Value {
		// With no operands the format is returned as is (assumes no '%' verbs in it).
		if sl, ok := a[1].(*SliceV); ok {
			if n, isC := sl.A[0].Len.ConstInt(); isC && n == 0 && len(sl.A) == 1 {
				e.noteAssumption("fmt.Sprintf(format) without operands returns format (format contains no % verbs)")
				return a[0]
			}
		}
		return strConst("<fmt@" + c.site + ">")
	}
	S["fmt.Sprint"] = func(e *Engine, st *State, c *callInfo, a []Value) Value { return strConst("<fmt@" + c.site + ">") }
	for _, m := range []string{"Debug", "Debugf", "Info", "Infof", "Warn", "Warnf", "Error", "Errorf"} {
		S["(*github.com/glowlabs-org/gca-backend/server.Logger)."+m] = nop
	}
	fatal := func(e *Engine, st *State, c *callInfo, a []Value) Value {
		e.addObl(st, "panic-free", "logger-fatal@"+c.site, c.site, False())
		st.status = stPanicked
		return nil
	}
	S["(*github.com/glowlabs-org/gca-backend/server.Logger).Fatal"] = fatal
	S["(*github.com/glowlabs-org/gca-backend/server.Logger).Fatalf"] = fatal
	S["(*github.com/glowlabs-org/gca-backend/glow.EventLogger).Printf"] = func(e *Engine, st *State, c *callInfo, a []Value) Value {
		return nil
	}

	// ---------- math ----------
	S["math.Float64bits"] = func(e *Engine, st *State, c *callInfo, a []Value) Value { return a[0] }
	S["math.Float64frombits"] = func(e *Engine, st *State, c *callInfo, a []Value) Value { return a[0] }
	S["bytes.Equal"] = func(e *Engine, st *State, c *callInfo, a []Value) Value {
		x := e.bytesToString(st, a[0].(*SliceV), c.site)
		y := e.bytesToString(st, a[1].(*SliceV), c.site)
		return eqValue(x, y, types.Typ[types.String])
	}

	// sort.Slice: compare-exchange network driven by the real less closure (n <= 6)
	S["sort.Slice"] = func(e *Engine, st *State, c *callInfo, a []Value) Value {
		iv := a[0].(*IfaceV)
		if len(iv.A) != 1 {
			panic(unsupported("sort.Slice on multi-alternative interface"))
		}
		sl := iv.A[0].V.(*SliceV)
		less := a[1].(*FuncV)
		e.noteAssumption("sort.Slice: bubble network over <= 6 elements using the real less closure; ties keep their order (Go leaves it unspecified)")
		for _, al := range sl.A {
			if al.Base == nil {
				continue
			}
			n, ok := e.lenBound(st, al)
			if !ok || n > 6 {
				panic(unsupported("sort.Slice over more than 6 elements"))
			}
			for pass := 0; pass < n; pass++ {
				for j := 0; j+1 < n-pass; j++ {
					J, J1 := BVu(uint64(j), 64), BVu(uint64(j+1), 64)
					inb := And(al.G, Ult(J1, al.Len))
					if inb.IsFalse() {
						continue
					}
					probe := st.fork()
					probe.assume(inb)
					if probe.pcFalse() {
						continue
					}
					r := e.callback(probe, c, less, []Value{J1, J})
					sw := And(inb, r.(*Term))
					x, y := e.sliceGet(st, al, J), e.sliceGet(st, al, J1)
					e.sliceSet(st, al, J, mergeV(sw, y, x), True())
					e.sliceSet(st, al, J1, mergeV(sw, x, y), True())
				}
			}
		}
		return nil
	}

	S["math/big.NewInt"] = func(e *Engine, st *State, c *callInfo, a []Value) Value {
		return singlePtr(e.alloc(st, &StructV{F: []Value{argTerm(a[0])}}))
	}
	S["(*math/big.Int).Int64"] = func(e *Engine, st *State, c *callInfo, a []Value) Value {
		return e.load(st, fieldPtr(a[0].(*PtrV), 0), c.site)
	}
	S["crypto/rand.Int"] = func(e *Engine, st *State, c *callInfo, a []Value) Value {
		mx := e.load(st, fieldPtr(a[1].(*PtrV), 0), c.site).(*Term)
		r := Fresh("rand", 64)
		r.Input = true
		st.assume(And(Sle(BVu(0, 64), r), Slt(r, mx)))
		e.noteAssumption("crypto/rand.Int(max): arbitrary value in [0,max), never an error")
		return &TupleV{E: []Value{singlePtr(e.alloc(st, &StructV{F: []Value{r}})), nilIface()}}
	}
	S["math/rand.Intn"] = func(e *Engine, st *State, c *callInfo, a []Value) Value {
		r := Fresh("rand", 64)
		r.Input = true
		st.assume(And(Sle(BVu(0, 64), r), Slt(r, argTerm(a[0]))))
		return r
	}
	S["math/rand.Seed"] = func(e *Engine, st *State, c *callInfo, a []Value) Value { return nil }

	installEnvStubs(e)
}

func (e *Engine) clockFrozen(st *State) bool {
	v, ok := st.ghost["clock.frozen"]
	return ok && v.(*Term).IsTrue()
}

func mkTime(sec, ns *Term) *StructV {
	return &StructV{F: []Value{sec, ns, &PtrV{A: []PtrAlt{{G: True()}}}}}
}

func fieldPtr(p *PtrV, f int) *PtrV {
	out := &PtrV{}
	for _, a := range p.A {
		if a.L == nil {
			out.A = append(out.A, a)
			continue
		}
		out.A = append(out.A, PtrAlt{G: a.G, L: extendLoc(a.L, Step{Field: f})})
	}
	return out
}

// bvFromBytes packs a [N]byte value into one bit-vector (byte 0 in the low bits).
func bvFromBytes(a *ArrayV) *Term {
	var acc *Term
	for _, el := range a.E {
		b := el.(*Term)
		if acc == nil {
			acc = b
		} else {
			acc = Concat(b, acc)
		}
	}
	return acc
}

func bytesFromBV(t *Term, n int) *ArrayV {
	es := make([]Value, n)
	for i := 0; i < n; i++ {
		es[i] = Extract(t, 8*i+7, 8*i)
	}
	return &ArrayV{E: es}
}

// msgArray turns a byte slice into (array, length) in canonical form: a store
// chain in ascending index order over the all-zero array, or a lambda for
// SMT-array backed slices.
func (e *Engine) msgArray(st *State, s *SliceV, site string) (*Term, *Term) {
	if len(s.A) != 1 {
		// merge alternatives
		var arr, ln *Term
		for i := len(s.A) - 1; i >= 0; i-- {
			a, l := e.msgArray(st, &SliceV{A: []SliceAlt{{G: True(), Base: s.A[i].Base, Off: s.A[i].Off, Len: s.A[i].Len, Cap: s.A[i].Cap}}}, site)
			if arr == nil {
				arr, ln = a, l
			} else {
				arr, ln = Ite(s.A[i].G, a, arr), Ite(s.A[i].G, l, ln)
			}
		}
		return arr, ln
	}
	al := s.A[0]
	// common base of all message arrays: an uninterpreted array (cvc5 rejects
	// store chains over different constant arrays); every message array
	// equals this base at and beyond its length, so that two messages with
	// the same length and content are the same array (UF congruence)
	zero := ArrVar("msg.base", 8)
	if al.Base == nil {
		return zero, BVu(0, 64)
	}
	if b, ok := e.bigLeaves(st, al.Base); ok {
		TF.fresh++
		j := Var(fmt.Sprintf("j!%d", TF.fresh), 64)
		return Lambda(j, Ite(Ult(j, al.Len), Select(b.Leaves[0], Add(al.Off, j)), Select(zero, j))), al.Len
	}
	n, ok := e.lenBound(st, al)
	if !ok {
		panic(unsupported("message of unbounded symbolic length at " + site))
	}
	arr := zero
	_, lenC := al.Len.ConstInt()
	for k := 0; k < n; k++ {
		K := BVu(uint64(k), 64)
		b := e.sliceGet(st, al, K).(*Term)
		if !lenC {
			b = Ite(Ult(K, al.Len), b, Select(zero, K))
		}
		arr = Store(arr, K, b)
	}
	return arr, al.Len
}

func isErrNil(v Value) *Term {
	iv := v.(*IfaceV)
	var c []*Term
	for _, a := range iv.A {
		if a.T == nil {
			c = append(c, a.G)
		}
	}
	return Or(c...)
}

func lowerFirst(s string) string { return strings.ToLower(s[:1]) + s[1:] }
