package main

// Hash-consed SMT term DAG with a local simplifier and an SMT-LIB2 printer.
//
// Sorts: Bool, (_ BitVec w), (Array (_ BitVec 64) (_ BitVec ew)).
// float64 values are carried as their 64-bit IEEE pattern (BitVec 64); FP
// operations are expressed through to_fp on those patterns.

import (
	"fmt"
	"math"
	"math/big"
	"sort"
	"strings"
)

type Op uint8

const (
	OpVar Op = iota
	OpConst
	OpTrue
	OpFalse
	OpNot
	OpAnd
	OpOr
	OpEq
	OpIte
	OpAdd
	OpSub
	OpMul
	OpUDiv
	OpURem
	OpSDiv
	OpSRem
	OpBAnd
	OpBOr
	OpBXor
	OpBNot
	OpNeg
	OpShl
	OpLShr
	OpAShr
	OpConcat
	OpExtract
	OpZExt
	OpSExt
	OpUlt
	OpUle
	OpSlt
	OpSle
	OpSelect
	OpStore
	OpConstArr
	OpUF
	OpFpLt   // args: bv64 patterns
	OpFpLe   //
	OpFpEq   // IEEE equality
	OpFpNaN  // isNaN
	OpLambda // (lambda ((j BV64)) body) ; Args[0] = bound var, Args[1] = body
)

var opNames = map[Op]string{
	OpNot: "not", OpAnd: "and", OpOr: "or", OpEq: "=", OpIte: "ite",
	OpAdd: "bvadd", OpSub: "bvsub", OpMul: "bvmul", OpUDiv: "bvudiv", OpURem: "bvurem",
	OpSDiv: "bvsdiv", OpSRem: "bvsrem", OpBAnd: "bvand", OpBOr: "bvor", OpBXor: "bvxor",
	OpBNot: "bvnot", OpNeg: "bvneg", OpShl: "bvshl", OpLShr: "bvlshr", OpAShr: "bvashr",
	OpConcat: "concat", OpUlt: "bvult", OpUle: "bvule", OpSlt: "bvslt", OpSle: "bvsle",
	OpSelect: "select", OpStore: "store",
}

// Term is an immutable DAG node. W: 0 = Bool, >0 = bit-vector width, -1 = array (EW = element width).
type Term struct {
	Op    Op
	Args  []*Term
	W     int
	EW    int
	Val   *big.Int // OpConst
	Name  string   // OpVar, OpUF
	P1    int      // extract hi / ext amount
	P2    int      // extract lo
	ID    int
	Axiom *Term // for OpVar: a defining side condition that must accompany any query mentioning the var
	Input bool  // OpVar: named harness input (reported in models)
}

type tkey struct {
	op             Op
	w, ew, p1, p2  int32
	n              int32
	a0, a1, a2     int32
	name, val, rest string
}

type TermFactory struct {
	table map[tkey]*Term
	next  int
	caseStart int // value of next when the current run of the harness started
	fresh int
	ufs   map[string]string // uf name -> declaration
}

var TF = &TermFactory{table: map[tkey]*Term{}, ufs: map[string]string{}}

func (t *Term) IsBool() bool  { return t.W == 0 }
func (t *Term) IsArr() bool   { return t.W == -1 }
func (t *Term) IsConst() bool { return t.Op == OpConst || t.Op == OpTrue || t.Op == OpFalse }
func (t *Term) IsTrue() bool  { return t.Op == OpTrue }
func (t *Term) IsFalse() bool { return t.Op == OpFalse }

func (t *Term) Uint64() uint64 { return t.Val.Uint64() }
func (t *Term) Int() int       { return int(t.Val.Int64()) }

// ConstInt returns (value, true) when t is a bit-vector constant that fits an int.
func (t *Term) ConstInt() (int, bool) {
	if t.Op != OpConst || !t.Val.IsInt64() {
		return 0, false
	}
	return int(t.Val.Int64()), true
}

func (f *TermFactory) key(op Op, w, ew, p1, p2 int, name string, val *big.Int, args []*Term) tkey {
	k := tkey{op: op, w: int32(w), ew: int32(ew), p1: int32(p1), p2: int32(p2), n: int32(len(args)), name: name}
	if val != nil {
		if val.IsUint64() {
			k.a0 = int32(val.Uint64() >> 32)
			k.a1 = int32(val.Uint64())
			k.val = "u"
		} else {
			k.val = val.Text(16)
		}
		return k
	}
	switch len(args) {
	case 0:
	case 1:
		k.a0 = int32(args[0].ID)
	case 2:
		k.a0, k.a1 = int32(args[0].ID), int32(args[1].ID)
	case 3:
		k.a0, k.a1, k.a2 = int32(args[0].ID), int32(args[1].ID), int32(args[2].ID)
	default:
		k.a0, k.a1, k.a2 = int32(args[0].ID), int32(args[1].ID), int32(args[2].ID)
		b := make([]byte, 0, 4*len(args))
		for _, a := range args[3:] {
			id := a.ID
			b = append(b, byte(id), byte(id>>8), byte(id>>16), byte(id>>24))
		}
		k.rest = string(b)
	}
	return k
}

// TermBudget bounds the number of terms one run (one case) of a harness may build.
var TermBudget = 2000000

func (f *TermFactory) mk(op Op, w, ew, p1, p2 int, name string, val *big.Int, args ...*Term) *Term {
	k := f.key(op, w, ew, p1, p2, name, val, args)
	if t, ok := f.table[k]; ok {
		return t
	}
	f.next++
	if TermBudget > 0 && f.next-f.caseStart > TermBudget {
		f.caseStart = f.next // report once
		panic(unsupported(fmt.Sprintf("state explosion: more than %d terms built in one run of the harness (symbolic offsets or lengths; reduce the bound)", TermBudget)))
	}
	t := &Term{Op: op, Args: args, W: w, EW: ew, Val: val, Name: name, P1: p1, P2: p2, ID: f.next}
	f.table[k] = t
	return t
}

var bigOne = big.NewInt(1)

func mask(w int) *big.Int {
	m := new(big.Int).Lsh(bigOne, uint(w))
	return m.Sub(m, bigOne)
}

func norm(v *big.Int, w int) *big.Int {
	r := new(big.Int).And(v, mask(w))
	return r
}

func signed(v *big.Int, w int) *big.Int {
	if v.Bit(w-1) == 1 {
		r := new(big.Int).Sub(v, new(big.Int).Lsh(bigOne, uint(w)))
		return r
	}
	return new(big.Int).Set(v)
}

// ---- constructors ----

var trueT, falseT *Term

func True() *Term {
	if trueT == nil {
		trueT = TF.mk(OpTrue, 0, 0, 0, 0, "", nil)
	}
	return trueT
}
func False() *Term {
	if falseT == nil {
		falseT = TF.mk(OpFalse, 0, 0, 0, 0, "", nil)
	}
	return falseT
}
func Bool(b bool) *Term {
	if b {
		return True()
	}
	return False()
}

func BV(v *big.Int, w int) *Term { return TF.mk(OpConst, w, 0, 0, 0, "", norm(v, w)) }
func BVu(v uint64, w int) *Term  { return BV(new(big.Int).SetUint64(v), w) }
func BVi(v int64, w int) *Term   { return BV(big.NewInt(v), w) }

func Var(name string, w int) *Term    { return TF.mk(OpVar, w, 0, 0, 0, name, nil) }
func BoolVar(name string) *Term       { return TF.mk(OpVar, 0, 0, 0, 0, name, nil) }
func ArrVar(name string, ew int) *Term { return TF.mk(OpVar, -1, ew, 0, 0, name, nil) }

func InputVar(name string, w int) *Term {
	t := Var(name, w)
	t.Input = true
	return t
}
func InputBool(name string) *Term {
	t := BoolVar(name)
	t.Input = true
	return t
}

func Fresh(prefix string, w int) *Term {
	TF.fresh++
	return Var(fmt.Sprintf("%s!%d", prefix, TF.fresh), w)
}
func FreshBool(prefix string) *Term {
	TF.fresh++
	return BoolVar(fmt.Sprintf("%s!%d", prefix, TF.fresh))
}
func FreshArr(prefix string, ew int) *Term {
	TF.fresh++
	return ArrVar(fmt.Sprintf("%s!%d", prefix, TF.fresh), ew)
}

func Not(a *Term) *Term {
	switch a.Op {
	case OpTrue:
		return False()
	case OpFalse:
		return True()
	case OpNot:
		return a.Args[0]
	}
	return TF.mk(OpNot, 0, 0, 0, 0, "", nil, a)
}

func nary(op Op, unit, zero *Term, args []*Term) *Term {
	var out []*Term
	seen := map[int]bool{}
	for _, a := range args {
		if a.Op == op {
			for _, b := range a.Args {
				if !seen[b.ID] {
					seen[b.ID] = true
					out = append(out, b)
				}
			}
			continue
		}
		if a == zero {
			return zero
		}
		if a == unit {
			continue
		}
		if !seen[a.ID] {
			seen[a.ID] = true
			out = append(out, a)
		}
	}
	for _, a := range out {
		if a.Op == OpNot && seen[a.Args[0].ID] {
			return zero
		}
	}
	if len(out) == 0 {
		return unit
	}
	if len(out) == 1 {
		return out[0]
	}
	return TF.mk(op, 0, 0, 0, 0, "", nil, out...)
}

func And(args ...*Term) *Term { return nary(OpAnd, True(), False(), args) }
func Or(args ...*Term) *Term  { return nary(OpOr, False(), True(), args) }
func Implies(a, b *Term) *Term { return Or(Not(a), b) }

func Eq(a, b *Term) *Term {
	if a == b {
		return True()
	}
	if a.W != b.W {
		panic(fmt.Sprintf("Eq: sort mismatch %d vs %d (%s / %s)", a.W, b.W, a.Short(), b.Short()))
	}
	if a.IsBool() {
		if a.IsTrue() {
			return b
		}
		if b.IsTrue() {
			return a
		}
		if a.IsFalse() {
			return Not(b)
		}
		if b.IsFalse() {
			return Not(a)
		}
	}
	if a.Op == OpConst && b.Op == OpConst {
		return Bool(a.Val.Cmp(b.Val) == 0)
	}
	// eq(ite(c,k1,k2), k) with constants
	if b.Op == OpConst && a.Op == OpIte {
		return iteEqConst(a, b)
	}
	if a.Op == OpConst && b.Op == OpIte {
		return iteEqConst(b, a)
	}
	// eq(concat(..), const) / eq(zext(x), const)
	if b.Op == OpConst && a.Op == OpZExt {
		hi := new(big.Int).Rsh(b.Val, uint(a.Args[0].W))
		if hi.Sign() != 0 {
			return False()
		}
		return Eq(a.Args[0], BV(b.Val, a.Args[0].W))
	}
	if a.Op == OpConst && b.Op == OpZExt {
		return Eq(b, a)
	}
	if a.Op == OpConcat && b.Op == OpConcat && a.Args[1].W == b.Args[1].W {
		return And(Eq(a.Args[0], b.Args[0]), Eq(a.Args[1], b.Args[1]))
	}
	if a.Op == OpConcat && b.Op == OpConst {
		lw := a.Args[1].W
		return And(Eq(a.Args[0], Extract(b, b.W-1, lw)), Eq(a.Args[1], Extract(b, lw-1, 0)))
	}
	if b.Op == OpConcat && a.Op == OpConst {
		return Eq(b, a)
	}
	if a.ID > b.ID {
		a, b = b, a
	}
	return TF.mk(OpEq, 0, 0, 0, 0, "", nil, a, b)
}

func iteEqConst(ite, k *Term) *Term {
	t, e := ite.Args[1], ite.Args[2]
	if (t.Op == OpConst || t.Op == OpIte) && (e.Op == OpConst || e.Op == OpIte) {
		return Ite(ite.Args[0], Eq(t, k), Eq(e, k))
	}
	a, b := ite, k
	if a.ID > b.ID {
		a, b = b, a
	}
	return TF.mk(OpEq, 0, 0, 0, 0, "", nil, a, b)
}

func Ite(c, a, b *Term) *Term {
	if c.IsTrue() {
		return a
	}
	if c.IsFalse() {
		return b
	}
	if a == b {
		return a
	}
	if a.W != b.W {
		panic(fmt.Sprintf("Ite: sort mismatch %d vs %d", a.W, b.W))
	}
	if a.IsBool() {
		if a.IsTrue() && b.IsFalse() {
			return c
		}
		if a.IsFalse() && b.IsTrue() {
			return Not(c)
		}
		if a.IsTrue() {
			return Or(c, b)
		}
		if a.IsFalse() {
			return And(Not(c), b)
		}
		if b.IsTrue() {
			return Or(Not(c), a)
		}
		if b.IsFalse() {
			return And(c, a)
		}
	}
	if c.Op == OpNot {
		return Ite(c.Args[0], b, a)
	}
	// ite(c, x, ite(c, y, z)) = ite(c, x, z)
	if b.Op == OpIte && b.Args[0] == c {
		return Ite(c, a, b.Args[2])
	}
	if a.Op == OpIte && a.Args[0] == c {
		return Ite(c, a.Args[1], b)
	}
	return TF.mk(OpIte, a.W, a.EW, 0, 0, "", nil, c, a, b)
}

func bin(op Op, a, b *Term) *Term {
	if a.W != b.W || a.W <= 0 {
		panic(fmt.Sprintf("bin %s: width mismatch %d vs %d (%s | %s)", opNames[op], a.W, b.W, a.Short(), b.Short()))
	}
	w := a.W
	if a.Op == OpConst && b.Op == OpConst {
		if r := foldBin(op, a.Val, b.Val, w); r != nil {
			return BV(r, w)
		}
	}
	isZero := func(t *Term) bool { return t.Op == OpConst && t.Val.Sign() == 0 }
	isOnes := func(t *Term) bool { return t.Op == OpConst && t.Val.Cmp(mask(w)) == 0 }
	isOne := func(t *Term) bool { return t.Op == OpConst && t.Val.Cmp(bigOne) == 0 }
	switch op {
	case OpAdd:
		if isZero(a) {
			return b
		}
		if isZero(b) {
			return a
		}
		// canonical: constant on the right; reassociate (x + c1) + c2
		if a.Op == OpConst {
			a, b = b, a
		}
		if b.Op == OpConst && a.Op == OpAdd && a.Args[1].Op == OpConst {
			return bin(OpAdd, a.Args[0], BV(new(big.Int).Add(a.Args[1].Val, b.Val), w))
		}
		if b.Op == OpConst && a.Op == OpSub && a.Args[1].Op == OpConst {
			// (x - c1) + c2 = x + (c2 - c1)
			return bin(OpAdd, a.Args[0], BV(new(big.Int).Sub(b.Val, a.Args[1].Val), w))
		}
	case OpSub:
		if isZero(b) {
			return a
		}
		if a == b {
			return BVu(0, w)
		}
		if b.Op == OpConst {
			return bin(OpAdd, a, BV(new(big.Int).Neg(b.Val), w))
		}
		// (x + c) - x = c
		if a.Op == OpAdd && a.Args[0] == b {
			return a.Args[1]
		}
		// (x + c1) - (x + c2)
		if a.Op == OpAdd && b.Op == OpAdd && a.Args[0] == b.Args[0] && a.Args[1].Op == OpConst && b.Args[1].Op == OpConst {
			return BV(new(big.Int).Sub(a.Args[1].Val, b.Args[1].Val), w)
		}
	case OpMul:
		if isZero(a) || isZero(b) {
			return BVu(0, w)
		}
		if isOne(a) {
			return b
		}
		if isOne(b) {
			return a
		}
		if a.Op == OpConst {
			a, b = b, a
		}
	case OpBAnd:
		if isZero(a) || isZero(b) {
			return BVu(0, w)
		}
		if isOnes(a) {
			return b
		}
		if isOnes(b) {
			return a
		}
		if a == b {
			return a
		}
	case OpBOr:
		if isZero(a) {
			return b
		}
		if isZero(b) {
			return a
		}
		if a == b {
			return a
		}
		if isOnes(a) || isOnes(b) {
			return BV(mask(w), w)
		}
		if r := orAsConcat(a, b, w); r != nil {
			return r
		}
	case OpBXor:
		if isZero(a) {
			return b
		}
		if isZero(b) {
			return a
		}
		if a == b {
			return BVu(0, w)
		}
	case OpShl, OpLShr, OpAShr:
		if isZero(b) {
			return a
		}
		if isZero(a) {
			return a
		}
		if b.Op == OpConst && op != OpAShr && b.Val.Cmp(big.NewInt(int64(w))) >= 0 {
			return BVu(0, w)
		}
	case OpUDiv, OpSDiv:
		if isOne(b) {
			return a
		}
	}
	return TF.mk(op, w, 0, 0, 0, "", nil, a, b)
}

func foldBin(op Op, x, y *big.Int, w int) *big.Int {
	switch op {
	case OpAdd:
		return new(big.Int).Add(x, y)
	case OpSub:
		return new(big.Int).Sub(x, y)
	case OpMul:
		return new(big.Int).Mul(x, y)
	case OpUDiv:
		if y.Sign() == 0 {
			return mask(w)
		}
		return new(big.Int).Div(x, y)
	case OpURem:
		if y.Sign() == 0 {
			return x
		}
		return new(big.Int).Mod(x, y)
	case OpSDiv:
		sx, sy := signed(x, w), signed(y, w)
		if sy.Sign() == 0 {
			if sx.Sign() < 0 {
				return big.NewInt(1)
			}
			return mask(w)
		}
		return new(big.Int).Quo(sx, sy)
	case OpSRem:
		sx, sy := signed(x, w), signed(y, w)
		if sy.Sign() == 0 {
			return x
		}
		return new(big.Int).Rem(sx, sy)
	case OpBAnd:
		return new(big.Int).And(x, y)
	case OpBOr:
		return new(big.Int).Or(x, y)
	case OpBXor:
		return new(big.Int).Xor(x, y)
	case OpShl:
		if y.Cmp(big.NewInt(int64(w))) >= 0 {
			return big.NewInt(0)
		}
		return new(big.Int).Lsh(x, uint(y.Uint64()))
	case OpLShr:
		if y.Cmp(big.NewInt(int64(w))) >= 0 {
			return big.NewInt(0)
		}
		return new(big.Int).Rsh(x, uint(y.Uint64()))
	case OpAShr:
		sx := signed(x, w)
		sh := uint(w)
		if y.Cmp(big.NewInt(int64(w))) < 0 {
			sh = uint(y.Uint64())
		}
		return new(big.Int).Rsh(sx, sh)
	}
	return nil
}

type bitSeg struct {
	lo int
	t  *Term
}

// bitSegs describes t as sub-terms placed at bit offsets with zeros elsewhere.
func bitSegs(t *Term, depth int) ([]bitSeg, bool) {
	if depth > 12 {
		return nil, false
	}
	switch t.Op {
	case OpConst:
		if t.Val.Sign() == 0 {
			return nil, true
		}
		return nil, false
	case OpZExt:
		return bitSegs(t.Args[0], depth+1)
	case OpShl:
		c, ok := t.Args[1].ConstInt()
		if !ok {
			return nil, false
		}
		in, ok := bitSegs(t.Args[0], depth+1)
		if !ok {
			return nil, false
		}
		var out []bitSeg
		for _, sg := range in {
			if sg.lo+c >= t.W {
				continue
			}
			x := sg.t
			if sg.lo+c+x.W > t.W {
				x = Extract(x, t.W-sg.lo-c-1, 0)
			}
			out = append(out, bitSeg{sg.lo + c, x})
		}
		return out, true
	case OpBOr:
		a, ok1 := bitSegs(t.Args[0], depth+1)
		b, ok2 := bitSegs(t.Args[1], depth+1)
		if !ok1 || !ok2 {
			return nil, false
		}
		return append(append([]bitSeg(nil), a...), b...), true
	case OpConcat:
		lo, ok1 := bitSegs(t.Args[1], depth+1)
		hi, ok2 := bitSegs(t.Args[0], depth+1)
		if !ok1 || !ok2 {
			return nil, false
		}
		out := append([]bitSeg(nil), lo...)
		for _, sg := range hi {
			out = append(out, bitSeg{sg.lo + t.Args[1].W, sg.t})
		}
		return out, true
	}
	return []bitSeg{{0, t}}, true
}

// orAsConcat rewrites a|b as a concatenation when the operands occupy disjoint bit ranges
// (little-endian decoding: uint32(b0) | uint32(b1)<<8 | ...).
func orAsConcat(a, b *Term, w int) *Term {
	if a.Op != OpZExt && a.Op != OpShl && a.Op != OpConcat && b.Op != OpZExt && b.Op != OpShl && b.Op != OpConcat {
		return nil
	}
	sa, ok1 := bitSegs(a, 0)
	sb, ok2 := bitSegs(b, 0)
	if !ok1 || !ok2 {
		return nil
	}
	all := append(append([]bitSeg(nil), sa...), sb...)
	sort.Slice(all, func(i, j int) bool { return all[i].lo < all[j].lo })
	pos := 0
	var acc *Term
	put := func(t *Term) {
		if acc == nil {
			acc = t
		} else {
			acc = Concat(t, acc)
		}
	}
	for _, sg := range all {
		if sg.lo < pos {
			return nil // overlap
		}
		if sg.lo > pos {
			put(BVu(0, sg.lo-pos))
		}
		put(sg.t)
		pos = sg.lo + sg.t.W
	}
	if pos > w {
		return nil
	}
	if pos < w {
		put(BVu(0, w-pos))
	}
	return acc
}

func Add(a, b *Term) *Term  { return bin(OpAdd, a, b) }
func Sub(a, b *Term) *Term  { return bin(OpSub, a, b) }
func Mul(a, b *Term) *Term  { return bin(OpMul, a, b) }
func UDiv(a, b *Term) *Term { return bin(OpUDiv, a, b) }
func URem(a, b *Term) *Term { return bin(OpURem, a, b) }
func SDiv(a, b *Term) *Term { return bin(OpSDiv, a, b) }
func SRem(a, b *Term) *Term { return bin(OpSRem, a, b) }
func BAnd(a, b *Term) *Term { return bin(OpBAnd, a, b) }
func BOr(a, b *Term) *Term  { return bin(OpBOr, a, b) }
func BXor(a, b *Term) *Term { return bin(OpBXor, a, b) }
func Shl(a, b *Term) *Term  { return bin(OpShl, a, b) }
func LShr(a, b *Term) *Term { return bin(OpLShr, a, b) }
func AShr(a, b *Term) *Term { return bin(OpAShr, a, b) }

func BNot(a *Term) *Term {
	if a.Op == OpConst {
		return BV(new(big.Int).Xor(a.Val, mask(a.W)), a.W)
	}
	if a.Op == OpBNot {
		return a.Args[0]
	}
	return TF.mk(OpBNot, a.W, 0, 0, 0, "", nil, a)
}

func Neg(a *Term) *Term {
	if a.Op == OpConst {
		return BV(new(big.Int).Neg(a.Val), a.W)
	}
	return TF.mk(OpNeg, a.W, 0, 0, 0, "", nil, a)
}

func cmp(op Op, a, b *Term) *Term {
	if a.W != b.W || a.W <= 0 {
		panic(fmt.Sprintf("cmp %s: width mismatch %d vs %d", opNames[op], a.W, b.W))
	}
	if a.Op == OpConst && b.Op == OpConst {
		var r bool
		switch op {
		case OpUlt:
			r = a.Val.Cmp(b.Val) < 0
		case OpUle:
			r = a.Val.Cmp(b.Val) <= 0
		case OpSlt:
			r = signed(a.Val, a.W).Cmp(signed(b.Val, a.W)) < 0
		case OpSle:
			r = signed(a.Val, a.W).Cmp(signed(b.Val, a.W)) <= 0
		}
		return Bool(r)
	}
	if a == b {
		return Bool(op == OpUle || op == OpSle)
	}
	if op == OpUlt && b.Op == OpConst && b.Val.Sign() == 0 {
		return False()
	}
	if op == OpUle && a.Op == OpConst && a.Val.Sign() == 0 {
		return True()
	}
	// comparisons of zero-extended small values against constants
	if (op == OpUlt || op == OpUle) && a.Op == OpZExt && b.Op == OpConst {
		iw := a.Args[0].W
		if b.Val.Cmp(mask(iw)) > 0 {
			return True()
		}
	}
	// finite-valued operands (ite/add trees over constants): decide by enumeration
	if (a.Op == OpConst || a.Op == OpIte || a.Op == OpAdd) && (b.Op == OpConst || b.Op == OpIte || b.Op == OpAdd) && a.W <= 64 {
		if va, ok1 := possibleConsts(a); ok1 {
			if vb, ok2 := possibleConsts(b); ok2 && len(va)*len(vb) <= 256 {
				allT, allF := true, true
				for _, x := range va {
					for _, y := range vb {
						var r bool
						if op == OpUlt {
							r = uint64(x) < uint64(y)
						} else {
							sx, sy := int64(x), int64(y)
							if a.W < 64 {
								sx = sx << uint(64-a.W) >> uint(64-a.W)
								sy = sy << uint(64-a.W) >> uint(64-a.W)
							}
							r = sx < sy
						}
						if r {
							allF = false
						} else {
							allT = false
						}
					}
				}
				if allT {
					return True()
				}
				if allF {
					return False()
				}
			}
		}
	}
	return TF.mk(op, 0, 0, 0, 0, "", nil, a, b)
}

func Ult(a, b *Term) *Term { return cmp(OpUlt, a, b) }
// <= is expressed through < so that a condition and the negation of its
// complement are the same term (branch conditions then match assumptions syntactically).
func Ule(a, b *Term) *Term { return Not(cmp(OpUlt, b, a)) }
func Slt(a, b *Term) *Term { return cmp(OpSlt, a, b) }
func Sle(a, b *Term) *Term { return Not(cmp(OpSlt, b, a)) }
func Ugt(a, b *Term) *Term { return Ult(b, a) }
func Uge(a, b *Term) *Term { return Ule(b, a) }
func Sgt(a, b *Term) *Term { return Slt(b, a) }
func Sge(a, b *Term) *Term { return Sle(b, a) }

func Concat(hi, lo *Term) *Term {
	w := hi.W + lo.W
	if hi.Op == OpConst && lo.Op == OpConst {
		v := new(big.Int).Lsh(hi.Val, uint(lo.W))
		v.Or(v, lo.Val)
		return BV(v, w)
	}
	// adjacent extracts of the same term
	if hi.Op == OpExtract && lo.Op == OpExtract && hi.Args[0] == lo.Args[0] && hi.P2 == lo.P1+1 {
		return Extract(hi.Args[0], hi.P1, lo.P2)
	}
	// concat(hi, concat(m, lo')) where hi,m adjacent extracts: right-assoc normal form handles most cases
	if lo.Op == OpConcat && hi.Op == OpExtract && lo.Args[0].Op == OpExtract && hi.Args[0] == lo.Args[0].Args[0] && hi.P2 == lo.Args[0].P1+1 {
		return Concat(Extract(hi.Args[0], hi.P1, lo.Args[0].P2), lo.Args[1])
	}
	if hi.Op == OpConst && hi.Val.Sign() == 0 {
		return ZExt(lo, hi.W)
	}
	return TF.mk(OpConcat, w, 0, 0, 0, "", nil, hi, lo)
}

func Extract(a *Term, hi, lo int) *Term {
	if hi < lo || hi >= a.W || lo < 0 {
		panic(fmt.Sprintf("Extract[%d:%d] of width %d", hi, lo, a.W))
	}
	w := hi - lo + 1
	if w == a.W {
		return a
	}
	switch a.Op {
	case OpConst:
		return BV(new(big.Int).Rsh(a.Val, uint(lo)), w)
	case OpExtract:
		return Extract(a.Args[0], a.P2+hi, a.P2+lo)
	case OpConcat:
		l := a.Args[1]
		if hi < l.W {
			return Extract(l, hi, lo)
		}
		if lo >= l.W {
			return Extract(a.Args[0], hi-l.W, lo-l.W)
		}
		return Concat(Extract(a.Args[0], hi-l.W, 0), Extract(l, l.W-1, lo))
	case OpZExt:
		iw := a.Args[0].W
		if hi < iw {
			return Extract(a.Args[0], hi, lo)
		}
		if lo >= iw {
			return BVu(0, w)
		}
		return ZExt(Extract(a.Args[0], iw-1, lo), hi-iw+1)
	case OpSExt:
		iw := a.Args[0].W
		if hi < iw {
			return Extract(a.Args[0], hi, lo)
		}
	case OpIte:
		if a.Args[1].Op == OpConst || a.Args[2].Op == OpConst {
			return Ite(a.Args[0], Extract(a.Args[1], hi, lo), Extract(a.Args[2], hi, lo))
		}
	case OpBAnd, OpBOr, OpBXor:
		return bin(a.Op, Extract(a.Args[0], hi, lo), Extract(a.Args[1], hi, lo))
	case OpLShr:
		// extract of (x >> c) for constant c
		if c, ok := a.Args[1].ConstInt(); ok && hi+c < a.W {
			return Extract(a.Args[0], hi+c, lo+c)
		}
	case OpShl:
		if c, ok := a.Args[1].ConstInt(); ok {
			if lo >= c {
				return Extract(a.Args[0], hi-c, lo-c)
			}
			if hi < c {
				return BVu(0, w)
			}
		}
	}
	return TF.mk(OpExtract, w, 0, hi, lo, "", nil, a)
}

func ZExt(a *Term, n int) *Term {
	if n == 0 {
		return a
	}
	if a.Op == OpConst {
		return BV(a.Val, a.W+n)
	}
	if a.Op == OpZExt {
		return ZExt(a.Args[0], n+a.P1)
	}
	return TF.mk(OpZExt, a.W+n, 0, n, 0, "", nil, a)
}

func SExt(a *Term, n int) *Term {
	if n == 0 {
		return a
	}
	if a.Op == OpConst {
		return BV(signed(a.Val, a.W), a.W+n)
	}
	if a.Op == OpZExt {
		return ZExt(a.Args[0], n+a.P1)
	}
	return TF.mk(OpSExt, a.W+n, 0, n, 0, "", nil, a)
}

// Resize converts a to width w (truncate, zero- or sign-extend).
func Resize(a *Term, w int, sign bool) *Term {
	if a.W == w {
		return a
	}
	if a.W > w {
		return Extract(a, w-1, 0)
	}
	if sign {
		return SExt(a, w-a.W)
	}
	return ZExt(a, w-a.W)
}

func ConstArr(ew int, def *Term) *Term {
	return TF.mk(OpConstArr, -1, ew, 0, 0, "", nil, def)
}

func Select(arr, idx *Term) *Term {
	if arr.W != -1 {
		panic("Select on non-array")
	}
	idx = Resize(idx, 64, false)
	for {
		switch arr.Op {
		case OpStore:
			si := arr.Args[1]
			if si == idx {
				return arr.Args[2]
			}
			if si.Op == OpConst && idx.Op == OpConst {
				arr = arr.Args[0]
				continue
			}
			if e := Eq(si, idx); e.IsFalse() {
				arr = arr.Args[0]
				continue
			}
		case OpConstArr:
			return arr.Args[0]
		case OpIte:
			return Ite(arr.Args[0], Select(arr.Args[1], idx), Select(arr.Args[2], idx))
		case OpLambda:
			return substBound(arr.Args[1], arr.Args[0], idx)
		}
		break
	}
	return TF.mk(OpSelect, arr.EW, 0, 0, 0, "", nil, arr, idx)
}

func Store(arr, idx, v *Term) *Term {
	idx = Resize(idx, 64, false)
	if v.W != arr.EW {
		panic(fmt.Sprintf("Store: elem width %d vs %d", v.W, arr.EW))
	}
	if arr.Op == OpStore && arr.Args[1] == idx {
		return Store(arr.Args[0], idx, v)
	}
	return TF.mk(OpStore, -1, arr.EW, 0, 0, "", nil, arr, idx, v)
}

// Lambda builds an array defined pointwise: bound must be a Var of width 64.
func Lambda(bound, body *Term) *Term {
	return TF.mk(OpLambda, -1, body.W, 0, 0, "", nil, bound, body)
}

func substBound(body, bound, with *Term) *Term {
	memo := map[int]*Term{}
	var rec func(t *Term) *Term
	rec = func(t *Term) *Term {
		if t == bound {
			return with
		}
		if len(t.Args) == 0 {
			return t
		}
		if r, ok := memo[t.ID]; ok {
			return r
		}
		if t.Op == OpLambda {
			memo[t.ID] = t // inner lambdas use distinct bound vars
			nb := rec(t.Args[1])
			r := Lambda(t.Args[0], nb)
			memo[t.ID] = r
			return r
		}
		na := make([]*Term, len(t.Args))
		ch := false
		for i, a := range t.Args {
			na[i] = rec(a)
			if na[i] != a {
				ch = true
			}
		}
		r := t
		if ch {
			r = Rebuild(t, na)
		}
		memo[t.ID] = r
		return r
	}
	return rec(body)
}

// Rebuild re-applies the smart constructor for t's operator on new arguments.
func Rebuild(t *Term, a []*Term) *Term {
	switch t.Op {
	case OpNot:
		return Not(a[0])
	case OpAnd:
		return And(a...)
	case OpOr:
		return Or(a...)
	case OpEq:
		return Eq(a[0], a[1])
	case OpIte:
		return Ite(a[0], a[1], a[2])
	case OpAdd, OpSub, OpMul, OpUDiv, OpURem, OpSDiv, OpSRem, OpBAnd, OpBOr, OpBXor, OpShl, OpLShr, OpAShr:
		return bin(t.Op, a[0], a[1])
	case OpBNot:
		return BNot(a[0])
	case OpNeg:
		return Neg(a[0])
	case OpConcat:
		return Concat(a[0], a[1])
	case OpExtract:
		return Extract(a[0], t.P1, t.P2)
	case OpZExt:
		return ZExt(a[0], t.P1)
	case OpSExt:
		return SExt(a[0], t.P1)
	case OpUlt, OpUle, OpSlt, OpSle:
		return cmp(t.Op, a[0], a[1])
	case OpSelect:
		return Select(a[0], a[1])
	case OpStore:
		return Store(a[0], a[1], a[2])
	case OpConstArr:
		return ConstArr(t.EW, a[0])
	case OpUF:
		return TF.mk(OpUF, t.W, t.EW, 0, 0, t.Name, nil, a...)
	case OpFpLt, OpFpLe, OpFpEq, OpFpNaN:
		return TF.mk(t.Op, 0, 0, 0, 0, "", nil, a...)
	}
	panic("Rebuild: op")
}

// UF applies an uninterpreted function; w = result width (0 bool).
func UF(name string, w int, args ...*Term) *Term {
	if _, ok := TF.ufs[name]; !ok && !strings.HasPrefix(name, "@") {
		var sb strings.Builder
		fmt.Fprintf(&sb, "(declare-fun %s (", name)
		for _, a := range args {
			sb.WriteString(sortOf(a) + " ")
		}
		sb.WriteString(") ")
		sb.WriteString(sortStr(w, 0))
		sb.WriteString(")")
		TF.ufs[name] = sb.String()
	}
	return TF.mk(OpUF, w, 0, 0, 0, name, nil, args...)
}

func fpConsts(a, b *Term) (float64, float64, bool) {
	if a.Op == OpConst && b.Op == OpConst && a.W == 64 {
		return math.Float64frombits(a.Uint64()), math.Float64frombits(b.Uint64()), true
	}
	return 0, 0, false
}

func FpLt(a, b *Term) *Term {
	if x, y, ok := fpConsts(a, b); ok {
		return Bool(x < y)
	}
	return TF.mk(OpFpLt, 0, 0, 0, 0, "", nil, a, b)
}
func FpLe(a, b *Term) *Term {
	if x, y, ok := fpConsts(a, b); ok {
		return Bool(x <= y)
	}
	return TF.mk(OpFpLe, 0, 0, 0, 0, "", nil, a, b)
}
func FpEq(a, b *Term) *Term {
	if x, y, ok := fpConsts(a, b); ok {
		return Bool(x == y)
	}
	return TF.mk(OpFpEq, 0, 0, 0, 0, "", nil, a, b)
}
func FpIsNaN(a *Term) *Term {
	if a.Op == OpConst && a.W == 64 {
		f := math.Float64frombits(a.Uint64())
		return Bool(f != f)
	}
	return TF.mk(OpFpNaN, 0, 0, 0, 0, "", nil, a)
}

// ---- printing ----

func sortStr(w, ew int) string {
	switch {
	case w == 0:
		return "Bool"
	case w == -1:
		return fmt.Sprintf("(Array (_ BitVec 64) (_ BitVec %d))", ew)
	default:
		return fmt.Sprintf("(_ BitVec %d)", w)
	}
}

func sortOf(t *Term) string { return sortStr(t.W, t.EW) }

func smtName(n string) string {
	return "|" + strings.NewReplacer("|", "_", "\\", "_").Replace(n) + "|"
}

func constStr(v *big.Int, w int) string {
	if w%4 == 0 {
		s := v.Text(16)
		return "#x" + strings.Repeat("0", w/4-len(s)) + s
	}
	s := v.Text(2)
	return "#b" + strings.Repeat("0", w-len(s)) + s
}

func (t *Term) Short() string {
	s := t.String()
	if len(s) > 120 {
		return s[:120] + "..."
	}
	return s
}

func (t *Term) String() string {
	var sb strings.Builder
	n := 0
	var rec func(t *Term)
	rec = func(t *Term) {
		n++
		if n > 400 {
			sb.WriteString("…")
			return
		}
		printHead(&sb, t, func(a *Term) { rec(a) })
	}
	rec(t)
	return sb.String()
}

func fpOf(sb *strings.Builder, a *Term, emit func(*Term)) {
	sb.WriteString("((_ to_fp 11 53) ")
	emit(a)
	sb.WriteString(")")
}

func printHead(sb *strings.Builder, t *Term, emit func(*Term)) {
	switch t.Op {
	case OpVar:
		sb.WriteString(smtName(t.Name))
	case OpConst:
		sb.WriteString(constStr(t.Val, t.W))
	case OpTrue:
		sb.WriteString("true")
	case OpFalse:
		sb.WriteString("false")
	case OpExtract:
		fmt.Fprintf(sb, "((_ extract %d %d) ", t.P1, t.P2)
		emit(t.Args[0])
		sb.WriteString(")")
	case OpZExt:
		fmt.Fprintf(sb, "((_ zero_extend %d) ", t.P1)
		emit(t.Args[0])
		sb.WriteString(")")
	case OpSExt:
		fmt.Fprintf(sb, "((_ sign_extend %d) ", t.P1)
		emit(t.Args[0])
		sb.WriteString(")")
	case OpConstArr:
		fmt.Fprintf(sb, "((as const %s) ", sortStr(-1, t.EW))
		emit(t.Args[0])
		sb.WriteString(")")
	case OpUF:
		if strings.HasPrefix(t.Name, "@") {
			printSpecial(sb, t, emit)
			return
		}
		if len(t.Args) == 0 {
			sb.WriteString(t.Name)
			return
		}
		sb.WriteString("(" + t.Name)
		for _, a := range t.Args {
			sb.WriteString(" ")
			emit(a)
		}
		sb.WriteString(")")
	case OpFpLt, OpFpLe, OpFpEq:
		sb.WriteString(map[Op]string{OpFpLt: "(fp.lt ", OpFpLe: "(fp.leq ", OpFpEq: "(fp.eq "}[t.Op])
		fpOf(sb, t.Args[0], emit)
		sb.WriteString(" ")
		fpOf(sb, t.Args[1], emit)
		sb.WriteString(")")
	case OpFpNaN:
		sb.WriteString("(fp.isNaN ")
		fpOf(sb, t.Args[0], emit)
		sb.WriteString(")")
	case OpLambda:
		sb.WriteString("(lambda ((" + smtName(t.Args[0].Name) + " (_ BitVec 64))) ")
		emit(t.Args[1])
		sb.WriteString(")")
	default:
		sb.WriteString("(" + opNames[t.Op])
		for _, a := range t.Args {
			sb.WriteString(" ")
			emit(a)
		}
		sb.WriteString(")")
	}
}

// Script renders assertions as a self-contained SMT-LIB2 script body
// (declarations, shared-node definitions, asserts). It returns the script and
// the input variables occurring in it.
type SelRef struct {
	Arr string // input array variable name
	Idx string // SMT name or literal of the index
	Sel string // SMT name of the select term
}

var lastSelRefs []SelRef

func Script(asserts []*Term, extraDecl []string) (string, []*Term) {
	s, in, _ := ScriptSel(asserts, extraDecl)
	return s, in
}

func ScriptSel(asserts []*Term, extraDecl []string) (string, []*Term, []SelRef) {
	return ScriptOpt(asserts, extraDecl, false)
}

// ScriptOpt: with dropAxioms the defining axioms of floating-point result
// variables are omitted (the results become unconstrained: an abstraction
// under which only unsat may be trusted).
func ScriptOpt(asserts []*Term, extraDecl []string, dropAxioms bool) (string, []*Term, []SelRef) {
	// gather cone (including axioms of variables)
	refs := map[int]int{}
	var order []*Term
	seen := map[int]bool{}
	var roots []*Term
	roots = append(roots, asserts...)
	var vars []*Term
	bound := map[int]bool{}
	var visit func(t *Term)
	visit = func(t *Term) {
		refs[t.ID]++
		if seen[t.ID] {
			return
		}
		seen[t.ID] = true
		if t.Op == OpLambda {
			bound[t.Args[0].ID] = true
		}
		for _, a := range t.Args {
			visit(a)
		}
		if t.Op == OpVar {
			vars = append(vars, t)
			if t.Axiom != nil && !dropAxioms {
				roots = append(roots, t.Axiom)
			}
		}
		order = append(order, t)
	}
	for i := 0; i < len(roots); i++ {
		visit(roots[i])
	}
	// terms depending on a lambda-bound variable cannot be hoisted
	dep := map[int]bool{}
	for _, t := range order {
		if bound[t.ID] {
			dep[t.ID] = true
			continue
		}
		for _, a := range t.Args {
			if dep[a.ID] {
				dep[t.ID] = true
			}
		}
		if t.Op == OpLambda {
			// the lambda itself is closed if its body depends only on its own bound var;
			// (nested lambdas over distinct bound vars are conservatively kept inline)
			dep[t.ID] = false
			var chk func(x *Term) bool
			chk = func(x *Term) bool {
				if bound[x.ID] && x != t.Args[0] {
					return true
				}
				for _, a := range x.Args {
					if dep[a.ID] && chk(a) {
						return true
					}
				}
				return false
			}
			if chk(t.Args[1]) {
				dep[t.ID] = true
			}
		}
	}
	var sb strings.Builder
	for _, d := range extraDecl {
		sb.WriteString(d + "\n")
	}
	ufSeen := map[string]bool{}
	for _, t := range order {
		if t.Op == OpUF && !ufSeen[t.Name] && !strings.HasPrefix(t.Name, "@") {
			ufSeen[t.Name] = true
			sb.WriteString(TF.ufs[t.Name] + "\n")
		}
	}
	sort.Slice(vars, func(i, j int) bool { return vars[i].ID < vars[j].ID })
	var inputs []*Term
	for _, v := range vars {
		if bound[v.ID] {
			continue
		}
		fmt.Fprintf(&sb, "(declare-const %s %s)\n", smtName(v.Name), sortOf(v))
		if v.Input {
			inputs = append(inputs, v)
		}
	}
	named := map[int]string{}
	var emit func(t *Term)
	emit = func(t *Term) {
		if n, ok := named[t.ID]; ok {
			sb.WriteString(n)
			return
		}
		printHead(&sb, t, emit)
	}
	force := map[int]bool{}
	var selTerms []*Term
	for _, t := range order {
		if t.Op == OpSelect && t.Args[0].Op == OpVar && t.Args[0].Input && !dep[t.ID] {
			force[t.ID] = true
			if len(t.Args[1].Args) > 0 {
				force[t.Args[1].ID] = true
			}
			selTerms = append(selTerms, t)
		}
	}
	for _, t := range order {
		if len(t.Args) == 0 || dep[t.ID] {
			continue
		}
		if refs[t.ID] > 1 || t.Op == OpStore || t.Op == OpLambda || force[t.ID] {
			name := fmt.Sprintf("t%d", t.ID)
			fmt.Fprintf(&sb, "(define-fun %s () %s ", name, sortOf(t))
			printHead(&sb, t, emit)
			sb.WriteString(")\n")
			named[t.ID] = name
		}
	}
	for _, r := range roots {
		sb.WriteString("(assert ")
		emit(r)
		sb.WriteString(")\n")
	}
	var sels []SelRef
	for _, t := range selTerms {
		var ib strings.Builder
		if n, ok := named[t.Args[1].ID]; ok {
			ib.WriteString(n)
		} else {
			printHead(&ib, t.Args[1], func(a *Term) { printHead(&ib, a, nil) })
		}
		sels = append(sels, SelRef{Arr: t.Args[0].Name, Idx: ib.String(), Sel: named[t.ID]})
	}
	return sb.String(), inputs, sels
}

// printSpecial renders the built-in floating point helper applications.
func printSpecial(sb *strings.Builder, t *Term, emit func(*Term)) {
	switch {
	case t.Name == "@fp.add" || t.Name == "@fp.sub" || t.Name == "@fp.mul" || t.Name == "@fp.div":
		sb.WriteString("(= ")
		fpOf(sb, t.Args[0], emit)
		sb.WriteString(" (" + t.Name[1:] + " RNE ")
		fpOf(sb, t.Args[1], emit)
		sb.WriteString(" ")
		fpOf(sb, t.Args[2], emit)
		sb.WriteString("))")
	case strings.HasPrefix(t.Name, "@to_fp_signed"):
		sb.WriteString("(= ")
		fpOf(sb, t.Args[0], emit)
		sb.WriteString(" ((_ to_fp 11 53) RNE ")
		emit(t.Args[1])
		sb.WriteString("))")
	case strings.HasPrefix(t.Name, "@to_fp_unsigned"):
		sb.WriteString("(= ")
		fpOf(sb, t.Args[0], emit)
		sb.WriteString(" ((_ to_fp_unsigned 11 53) RNE ")
		emit(t.Args[1])
		sb.WriteString("))")
	case t.Name == "@fp_to_sbv64":
		sb.WriteString("((_ fp.to_sbv 64) RTZ ")
		fpOf(sb, t.Args[0], emit)
		sb.WriteString(")")
	default:
		panic("printSpecial: " + t.Name)
	}
}

// Connectivity of terms through shared variables, kept in one global
// union-find: every term merges the classes of all variables below it. This
// over-approximates "shares a variable with" (coarser slices, never unsound).
var ufParent = map[int]int{}
var repMemo = map[int]int{}

func ufFind(x int) int {
	for {
		p, ok := ufParent[x]
		if !ok || p == x {
			return x
		}
		gp, ok2 := ufParent[p]
		if ok2 {
			ufParent[x] = gp
		}
		x = p
	}
}

func ufUnion(a, b int) int {
	ra, rb := ufFind(a), ufFind(b)
	if ra != rb {
		ufParent[ra] = rb
	}
	return rb
}

// repOf returns a representative variable class of t (0: ground term).
func repOf(t *Term) int {
	if r, ok := repMemo[t.ID]; ok {
		if r == 0 {
			return 0
		}
		return ufFind(r)
	}
	r := 0
	switch {
	case t.Op == OpVar:
		r = t.ID
		ufParent[r] = r
		repMemo[t.ID] = r
		if t.Axiom != nil {
			if a := repOf(t.Axiom); a != 0 {
				r = ufUnion(r, a)
			}
		}
		return ufFind(r)
	default:
		for _, a := range t.Args {
			if ar := repOf(a); ar != 0 {
				if r == 0 {
					r = ar
				} else {
					r = ufUnion(r, ar)
				}
			}
		}
		if t.Op == OpUF && len(t.Args) > 0 && !strings.HasPrefix(t.Name, "@") {
			fid := -hashName(t.Name)
			if _, ok := ufParent[fid]; !ok {
				ufParent[fid] = fid
			}
			if r == 0 {
				r = fid
			} else {
				r = ufUnion(r, fid)
			}
		}
	}
	repMemo[t.ID] = r
	if r == 0 {
		return 0
	}
	return ufFind(r)
}

func hashName(s string) int {
	h := 7
	for i := 0; i < len(s); i++ {
		h = h*31 + int(s[i])
		h &= 0xfffffff
	}
	return h + 1
}

// slicePC keeps the conjuncts of pc connected to goal (call repOf on every
// conjunct of every query first, so that the classes are complete).
func slicePC(pc []*Term, goal *Term) []*Term {
	g := repOf(goal)
	var out []*Term
	for _, c := range pc {
		r := repOf(c)
		if r == 0 || (g != 0 && ufFind(r) == ufFind(g)) {
			out = append(out, c)
		}
	}
	return out
}

func hasFpAxioms(ts []*Term) bool {
	seen := map[int]bool{}
	var rec func(t *Term) bool
	rec = func(t *Term) bool {
		if seen[t.ID] {
			return false
		}
		seen[t.ID] = true
		if t.Op == OpVar && t.Axiom != nil {
			return true
		}
		for _, a := range t.Args {
			if rec(a) {
				return true
			}
		}
		return false
	}
	for _, t := range ts {
		if rec(t) {
			return true
		}
	}
	return false
}
