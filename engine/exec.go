package main

// Symbolic executor over go/ssa with state merging at post-dominators and at
// function returns. Go run-time checks become deferred proof obligations.

import (
	"fmt"
	"go/constant"
	"go/token"
	"go/types"
	"math"
	"math/big"
	"os"
	"sort"
	"strings"
	"sync"
	"time"

	"golang.org/x/tools/go/ssa"
)

type Obligation struct {
	ID       string `json:"id"`
	Kind     string `json:"kind"` // assert | panic-free | unwind | reach | lock
	Site     string `json:"site"`
	Harness  string `json:"harness"`
	Case     string `json:"case,omitempty"`
	pc       []*Term
	goal     *Term
	Verdict  string            `json:"verdict"` // unsat (holds) | sat (violated) | unknown ; for reach: sat = reachable
	Solver   string            `json:"solver"`
	Ms       int64             `json:"ms"`
	Model    map[string]string `json:"model,omitempty"`
	Err      string            `json:"err,omitempty"`
	OK       bool              `json:"ok"`
	Abstract bool              `json:"abstract_counterexample,omitempty"`
}

type Frame struct {
	id     int
	fn     *ssa.Function
	env    map[ssa.Value]Value
	block  *ssa.BasicBlock
	prev   *ssa.BasicBlock
	ip     int
	defers []deferred
	visits map[int]int
	symv   map[int]int
}

type deferred struct {
	fn   Value // FuncV or nil when static
	call *ssa.CallCommon
	args []Value
}

const (
	stRunning = iota
	stAtMarker
	stReturned
	stPanicked
	stFinished
)

type State struct {
	frames   []*Frame
	heap     map[int]Value
	pc       []*Term
	core     []*Term // pc without "assume after assert" conjuncts: used for reach witnesses
	ghost    map[string]Value
	status   int
	ret      Value
	retFrame int
	depth    int
}

type marker struct {
	frame int
	block *ssa.BasicBlock
}

type StubFn func(e *Engine, st *State, c *callInfo, args []Value) Value

type callInfo struct {
	instr  ssa.Instruction
	common *ssa.CallCommon
	site   string
	name   string
}

type Engine struct {
	prog          *ssa.Program
	fset          *token.FileSet
	pool          *SolverPool
	repoPrefix    string
	mu            sync.Mutex
	obls          []*Obligation
	oblSeq        map[string]int
	nextObj       int
	nextFrame     int
	pd            map[*ssa.Function]*pdInfo
	stubs         map[string]StubFn
	funcsSeen     map[string]bool
	stubsSeen     map[string]bool
	loopsSeen     map[string]string
	globals       map[*ssa.Global]int
	harness       string
	caseLabel     string
	unwind        int
	maxVisits     int
	spawned       []string
	paths         int
	merges        int
	caseVals      map[string]int // verifCase name -> chosen value for this run
	caseRanges    map[string][2]int
	caseOrder     []string
	bounds        map[string]string
	watchLocks    bool
	lockGuard     map[string]string // "pkg.Type.field" -> mutex field
	trace         bool
	initDone      map[*ssa.Package]bool
	initHeap      map[int]Value
	assumptions   map[string]bool
	diskLog       []string
	readLog       []string
	handles       map[int]*fileHandle
	tier          string
	fixedCases    map[string]int
	feasTimeout   int
	feasCalls     int
	feasMs        int64
	inHook        bool
	objTypes      map[int]types.Type
	enabledModels map[string]bool
	redirects     map[string]*ssa.Function
	mainPkg       *ssa.Package
}

func (e *Engine) site(instr ssa.Instruction) string {
	if instr == nil {
		return "?"
	}
	p := e.fset.Position(instr.Pos())
	fn := ""
	if instr.Parent() != nil {
		fn = instr.Parent().String()
	}
	if !p.IsValid() {
		return fn
	}
	f := p.Filename
	if i := strings.Index(f, "/repo/"); i >= 0 {
		f = f[i+6:]
	} else if i := strings.LastIndex(f, "/"); i >= 0 {
		f = f[i+1:]
	}
	return fmt.Sprintf("%s:%d(%s)", f, p.Line, shortFn(fn))
}

func shortFn(s string) string {
	s = strings.ReplaceAll(s, "github.com/glowlabs-org/gca-backend/", "")
	return s
}

// ---- obligations ----

func (e *Engine) addObl(st *State, kind, label, site string, goal *Term) {
	e.mu.Lock()
	defer e.mu.Unlock()
	base := e.harness + "#" + label
	e.oblSeq[base]++
	id := base
	if e.oblSeq[base] > 1 {
		id = fmt.Sprintf("%s~%d", base, e.oblSeq[base])
	}
	src := st.pc
	if kind == "reach" {
		src = st.core
	}
	var pc []*Term
	if !(goal.IsTrue() && kind != "reach") {
		// (obligations decided by the simplifier need no path condition)
		pc = make([]*Term, len(src))
		copy(pc, src)
	}
	e.obls = append(e.obls, &Obligation{ID: id, Kind: kind, Site: site, Harness: e.harness, Case: e.caseLabel, pc: pc, goal: goal})
}

// oblige records "goal must hold here" and then assumes it.
func (e *Engine) oblige(st *State, kind, label, site string, goal *Term) {
	if goal.IsTrue() {
		return
	}
	e.addObl(st, kind, label, site, goal)
	st.assumeProved(goal)
}

// assumedGoals: terms that entered a path condition only because an obligation
// with that goal was emitted first ("assume after assert"). They are implied
// by the rest of the path condition whenever all obligations hold, so reach
// witnesses may ignore them.
var assumedGoals = map[int]bool{}
var showBranches = os.Getenv("GOSYM_SHOW_BRANCHES") != ""

// weakenAssumed replaces assumed goals by true inside and/or structure.
func weakenAssumed(t *Term) *Term {
	if assumedGoals[t.ID] {
		return True()
	}
	if t.Op == OpAnd || t.Op == OpOr {
		na := make([]*Term, len(t.Args))
		for i, a := range t.Args {
			na[i] = weakenAssumed(a)
		}
		if t.Op == OpAnd {
			return And(na...)
		}
		return Or(na...)
	}
	return t
}

func (st *State) assume(c *Term) {
	if c.IsTrue() {
		return
	}
	st.pc = append(st.pc, c)
	st.core = append(st.core, c)
}

// assumeProved adds a conjunct that an obligation establishes; it does not
// restrict reachability.
func (st *State) assumeProved(c *Term) {
	if c.IsTrue() {
		return
	}
	st.pc = append(st.pc, c)
	if c.IsFalse() {
		st.core = append(st.core, c)
	}
}

// implied: +1 when c follows syntactically from the path condition, -1 when
// its negation does (atoms of the path condition, one level of and/or).
func (st *State) implied(c *Term) int {
	facts := map[int]bool{}
	for _, p := range st.pc {
		facts[p.ID] = true
		if p.Op == OpAnd {
			for _, q := range p.Args {
				facts[q.ID] = true
			}
		}
	}
	var ev func(t *Term, depth int) int
	ev = func(t *Term, depth int) int {
		if facts[t.ID] {
			return 1
		}
		if facts[Not(t).ID] {
			return -1
		}
		if depth > 2 {
			return 0
		}
		switch t.Op {
		case OpNot:
			return -ev(t.Args[0], depth+1)
		case OpAnd:
			all := true
			for _, a := range t.Args {
				switch ev(a, depth+1) {
				case -1:
					return -1
				case 0:
					all = false
				}
			}
			if all {
				return 1
			}
		case OpOr:
			all := true
			for _, a := range t.Args {
				switch ev(a, depth+1) {
				case 1:
					return 1
				case 0:
					all = false
				}
			}
			if all {
				return -1
			}
		}
		return 0
	}
	return ev(c, 0)
}

// runSide explores one side of a symbolic branch. When the side runs into code
// the engine cannot model, the side is dropped only if the solver shows that
// its path condition is infeasible; otherwise the failure propagates.
func (e *Engine) runSide(s *State, im marker) (outs []*State) {
	pc := append([]*Term(nil), s.pc...)
	defer func() {
		if r := recover(); r != nil {
			if u, ok := r.(unsupportedErr); ok && !u.checked {
				res := e.pool.Solve(pc, 20000, defaultPortfolio)
				if res.Verdict == Unsat {
					outs = nil
					return
				}
				u.checked = true
				panic(u)
			}
			panic(r)
		}
	}()
	return e.runUntil(s, im)
}

func (st *State) pcFalse() bool {
	for _, c := range st.pc {
		if c.IsFalse() {
			return true
		}
	}
	return false
}

func (st *State) top() *Frame { return st.frames[len(st.frames)-1] }

func (st *State) fork() *State {
	ns := &State{status: st.status, depth: st.depth}
	ns.frames = make([]*Frame, len(st.frames))
	for i, f := range st.frames {
		nf := *f
		nf.env = make(map[ssa.Value]Value, len(f.env))
		for k, v := range f.env {
			nf.env[k] = v
		}
		nf.visits = make(map[int]int, len(f.visits))
		for k, v := range f.visits {
			nf.visits[k] = v
		}
		nf.symv = make(map[int]int, len(f.symv))
		for k, v := range f.symv {
			nf.symv[k] = v
		}
		nf.defers = append([]deferred(nil), f.defers...)
		ns.frames[i] = &nf
	}
	ns.heap = make(map[int]Value, len(st.heap))
	for k, v := range st.heap {
		ns.heap[k] = v
	}
	ns.ghost = make(map[string]Value, len(st.ghost))
	for k, v := range st.ghost {
		ns.ghost[k] = v
	}
	ns.pc = append([]*Term(nil), st.pc...)
	ns.core = append([]*Term(nil), st.core...)
	return ns
}

// mergeStates merges states that are at the same program point.
func (e *Engine) mergeStates(ss []*State) *State {
	if len(ss) == 1 {
		return ss[0]
	}
	e.merges++
	// common pc prefix
	base := len(ss[0].pc)
	for _, s := range ss[1:] {
		n := 0
		for n < base && n < len(s.pc) && s.pc[n] == ss[0].pc[n] {
			n++
		}
		base = n
	}
	conds := make([]*Term, len(ss))
	for i, s := range ss {
		conds[i] = And(s.pc[base:]...)
	}
	res := ss[len(ss)-1]
	for i := len(ss) - 2; i >= 0; i-- {
		res = e.merge2(conds[i], ss[i], res)
	}
	res.pc = append([]*Term(nil), ss[0].pc[:base]...)
	if d := Or(conds...); !d.IsTrue() && !isTautology(d) {
		res.pc = append(res.pc, d)
	}
	// same for the reachability core
	cb := len(ss[0].core)
	for _, s := range ss[1:] {
		n := 0
		for n < cb && n < len(s.core) && s.core[n] == ss[0].core[n] {
			n++
		}
		cb = n
	}
	cc := make([]*Term, len(ss))
	for i, s := range ss {
		cc[i] = And(s.core[cb:]...)
	}
	res.core = append([]*Term(nil), ss[0].core[:cb]...)
	if d := Or(cc...); !d.IsTrue() && !isTautology(d) {
		res.core = append(res.core, d)
	}
	return res
}

func (e *Engine) merge2(c *Term, a, b *State) *State {
	if len(a.frames) != len(b.frames) {
		panic("merge2: frame depth mismatch")
	}
	out := &State{status: a.status, retFrame: a.retFrame, depth: a.depth}
	out.frames = make([]*Frame, len(a.frames))
	for i := range a.frames {
		fa, fb := a.frames[i], b.frames[i]
		if fa.id != fb.id || fa.block != fb.block || fa.ip != fb.ip {
			panic(fmt.Sprintf("merge2: frames differ: %s b%d ip%d vs %s b%d ip%d", fa.fn, fa.block.Index, fa.ip, fb.fn, fb.block.Index, fb.ip))
		}
		nf := *fa
		nf.env = make(map[ssa.Value]Value, len(fa.env))
		for k, va := range fa.env {
			if vb, ok := fb.env[k]; ok {
				if va == vb {
					nf.env[k] = va
				} else {
					nf.env[k] = mergeV(c, va, vb)
				}
			}
			// values defined on one side only are dead past the join
		}
		nf.visits = map[int]int{}
		for k, v := range fa.visits {
			nf.visits[k] = v
		}
		for k, v := range fb.visits {
			if v > nf.visits[k] {
				nf.visits[k] = v
			}
		}
		nf.symv = map[int]int{}
		for k, v := range fa.symv {
			nf.symv[k] = v
		}
		for k, v := range fb.symv {
			if v > nf.symv[k] {
				nf.symv[k] = v
			}
		}
		if len(fa.defers) != len(fb.defers) {
			panic(unsupported("merging states with different defer stacks in " + fa.fn.String()))
		}
		out.frames[i] = &nf
	}
	out.heap = make(map[int]Value, len(a.heap))
	for k, va := range a.heap {
		if vb, ok := b.heap[k]; ok {
			if va == vb {
				out.heap[k] = va
			} else {
				out.heap[k] = mergeV(c, va, vb)
			}
		} else {
			out.heap[k] = va
		}
	}
	for k, vb := range b.heap {
		if _, ok := a.heap[k]; !ok {
			out.heap[k] = vb
		}
	}
	out.ghost = map[string]Value{}
	for k, va := range a.ghost {
		if vb, ok := b.ghost[k]; ok {
			if va == vb {
				out.ghost[k] = va
			} else if strings.HasPrefix(k, "file:") {
				out.ghost[k] = mergeFiles(c, va.(*StructV), vb.(*StructV))
			} else {
				out.ghost[k] = mergeV(c, va, vb)
			}
		} else if strings.HasPrefix(k, "file:") {
			out.ghost[k] = mergeFiles(c, va.(*StructV), absentFile())
		} else {
			out.ghost[k] = va
		}
	}
	for k, vb := range b.ghost {
		if _, ok := a.ghost[k]; !ok {
			if strings.HasPrefix(k, "file:") {
				out.ghost[k] = mergeFiles(c, absentFile(), vb.(*StructV))
			} else {
				out.ghost[k] = vb
			}
		}
	}
	if a.ret != nil || b.ret != nil {
		out.ret = mergeV(c, a.ret, b.ret)
	}
	return out
}

// ---- post-dominators ----

type pdInfo struct {
	ipdom   []*ssa.BasicBlock // nil = exit
	reach   [][]bool
	loops   []map[int]bool // natural loops (sets of block indices)
	headers []int          // header block of each loop
}

// continues reports whether taking successor k of the If in block b stays in
// a loop that the other successor leaves (i.e. the branch is a loop exit test).
func (p *pdInfo) continues(b *ssa.BasicBlock, k int) bool {
	s, o := b.Succs[k].Index, b.Succs[1-k].Index
	for _, l := range p.loops {
		if l[b.Index] && l[s] && !l[o] {
			return true
		}
	}
	return false
}

func (e *Engine) pdom(fn *ssa.Function) *pdInfo {
	if p, ok := e.pd[fn]; ok {
		return p
	}
	n := len(fn.Blocks)
	exit := n
	succ := make([][]int, n+1)
	pred := make([][]int, n+1)
	for _, b := range fn.Blocks {
		if len(b.Succs) == 0 {
			succ[b.Index] = []int{exit}
			pred[exit] = append(pred[exit], b.Index)
		}
		for _, s := range b.Succs {
			succ[b.Index] = append(succ[b.Index], s.Index)
			pred[s.Index] = append(pred[s.Index], b.Index)
		}
	}
	// reverse post-order on reversed graph from exit
	order := []int{}
	seen := make([]bool, n+1)
	var dfs func(u int)
	dfs = func(u int) {
		seen[u] = true
		for _, p := range pred[u] {
			if !seen[p] {
				dfs(p)
			}
		}
		order = append(order, u)
	}
	dfs(exit)
	rpo := make([]int, len(order))
	num := make([]int, n+1)
	for i := range num {
		num[i] = -1
	}
	for i := range order {
		rpo[i] = order[len(order)-1-i]
		num[rpo[i]] = i
	}
	idom := make([]int, n+1)
	for i := range idom {
		idom[i] = -1
	}
	idom[exit] = exit
	intersect := func(a, b int) int {
		for a != b {
			for num[a] > num[b] {
				a = idom[a]
			}
			for num[b] > num[a] {
				b = idom[b]
			}
		}
		return a
	}
	changed := true
	for changed {
		changed = false
		for _, u := range rpo[1:] {
			nd := -1
			for _, s := range succ[u] {
				if idom[s] == -1 {
					continue
				}
				if nd == -1 {
					nd = s
				} else {
					nd = intersect(nd, s)
				}
			}
			if nd != -1 && idom[u] != nd {
				idom[u] = nd
				changed = true
			}
		}
	}
	p := &pdInfo{ipdom: make([]*ssa.BasicBlock, n)}
	for i := 0; i < n; i++ {
		if idom[i] >= 0 && idom[i] < n {
			p.ipdom[i] = fn.Blocks[idom[i]]
		}
	}
	// reachability
	p.reach = make([][]bool, n)
	for i := 0; i < n; i++ {
		r := make([]bool, n)
		stack := []int{}
		for _, s := range fn.Blocks[i].Succs {
			stack = append(stack, s.Index)
		}
		for len(stack) > 0 {
			u := stack[len(stack)-1]
			stack = stack[:len(stack)-1]
			if r[u] {
				continue
			}
			r[u] = true
			for _, s := range fn.Blocks[u].Succs {
				stack = append(stack, s.Index)
			}
		}
		p.reach[i] = r
	}
	// natural loops from back edges u->h with h dominating u
	for _, u := range fn.Blocks {
		for _, h := range u.Succs {
			if !h.Dominates(u) {
				continue
			}
			body := map[int]bool{h.Index: true}
			stack := []*ssa.BasicBlock{u}
			for len(stack) > 0 {
				x := stack[len(stack)-1]
				stack = stack[:len(stack)-1]
				if body[x.Index] {
					continue
				}
				body[x.Index] = true
				for _, pr := range x.Preds {
					stack = append(stack, pr)
				}
			}
			// loops with the same header are one loop
			merged := false
			for li := range p.loops {
				if p.headers[li] == h.Index {
					for b := range body {
						p.loops[li][b] = true
					}
					merged = true
					break
				}
			}
			if !merged {
				p.loops = append(p.loops, body)
				p.headers = append(p.headers, h.Index)
			}
		}
	}
	e.pd[fn] = p
	return p
}

// ---- running ----

func (e *Engine) newFrame(fn *ssa.Function, args []Value, binds []Value) *Frame {
	e.nextFrame++
	fr := &Frame{id: e.nextFrame, fn: fn, env: map[ssa.Value]Value{}, visits: map[int]int{}, symv: map[int]int{}}
	if len(args) != len(fn.Params) {
		panic(fmt.Sprintf("call %s: %d args for %d params", fn, len(args), len(fn.Params)))
	}
	for i, p := range fn.Params {
		fr.env[p] = args[i]
	}
	for i, fv := range fn.FreeVars {
		fr.env[fv] = binds[i]
	}
	fr.block = fn.Blocks[0]
	e.funcsSeen[shortFn(fn.String())] = true
	return fr
}

// enter moves the top frame to target, evaluating phis. Returns true when the marker is hit.
func (e *Engine) enter(st *State, target *ssa.BasicBlock, m marker) bool {
	fr := st.top()
	from := fr.block
	fr.prev = from
	fr.block = target
	// entering a loop from outside starts a fresh unwinding count for its blocks
	if pd := e.pdom(fr.fn); len(pd.loops) > 0 && from != nil {
		for li, l := range pd.loops {
			if pd.headers[li] == target.Index && !l[from.Index] {
				for b := range l {
					delete(fr.symv, b)
				}
			}
		}
	}
	fr.visits[target.Index]++
	if fr.visits[target.Index] > e.maxVisits {
		panic(unsupported(fmt.Sprintf("block visit limit exceeded in %s block %d", fr.fn, target.Index)))
	}
	// phis
	pi := -1
	for i, p := range target.Preds {
		if p == from {
			pi = i
			break
		}
	}
	nphi := 0
	var vals []Value
	for _, ins := range target.Instrs {
		phi, ok := ins.(*ssa.Phi)
		if !ok {
			break
		}
		vals = append(vals, e.get(st, fr, phi.Edges[pi]))
		nphi++
	}
	for i := 0; i < nphi; i++ {
		fr.env[target.Instrs[i].(*ssa.Phi)] = vals[i]
	}
	fr.ip = nphi
	if m.frame == fr.id && m.block == target {
		st.status = stAtMarker
		return true
	}
	return false
}

func (e *Engine) feasible(st *State, extra *Term) bool {
	if e.feasTimeout <= 0 {
		return true // pruning disabled: rely on unwinding bounds and deferred obligations
	}
	as := append(append([]*Term(nil), st.pc...), extra)
	t0 := time.Now()
	r := e.pool.Solve(as, e.feasTimeout, defaultPortfolio)
	e.feasCalls++
	e.feasMs += time.Since(t0).Milliseconds()
	return r.Verdict != Unsat
}

// runUntil executes st until it reaches marker m, leaves the marker's frame, or terminates.
func (e *Engine) runUntil(st *State, m marker) []*State {
	var done []*State
	for {
		if st.pcFalse() {
			return done
		}
		fr := st.top()
		instr := fr.block.Instrs[fr.ip]
		if e.trace {
			fmt.Printf("  [%s b%d.%d] %T %v\n", shortFn(fr.fn.String()), fr.block.Index, fr.ip, instr, instr)
		}
		switch ins := instr.(type) {
		case *ssa.Jump:
			if e.enter(st, fr.block.Succs[0], m) {
				return append(done, st)
			}
		case *ssa.If:
			cond := e.get(st, fr, ins.Cond).(*Term)
			if cond.IsConst() {
				t := fr.block.Succs[0]
				if cond.IsFalse() {
					t = fr.block.Succs[1]
				}
				if e.enter(st, t, m) {
					return append(done, st)
				}
				continue
			}
			pd := e.pdom(fr.fn)
			B := fr.block
			J := pd.ipdom[B.Index]
			im := marker{fr.id, J}
			isLoopTest := pd.continues(B, 0) || pd.continues(B, 1)
			if isLoopTest {
				fr.symv[B.Index]++
			}
			sv := fr.symv[B.Index]
			if imp := st.implied(cond); imp != 0 {
				t := B.Succs[0]
				if imp < 0 {
					t = B.Succs[1]
				}
				if e.enter(st, t, m) {
					return append(done, st)
				}
				continue
			}
			if showBranches {
				fmt.Printf("BRANCH %s :: %s\n", e.site(ins), cond.Short())
			}
			var arrived []*State
			sides := []struct {
				c *Term
				t *ssa.BasicBlock
			}{{cond, B.Succs[0]}, {Not(cond), B.Succs[1]}}
			for k, sd := range sides {
				loops := isLoopTest && pd.continues(B, k)
				if loops && sv > e.unwind {
					// unwinding assertion: this side must be infeasible
					e.addObl(st, "unwind", fmt.Sprintf("unwind[%s b%d]", shortFn(fr.fn.String()), B.Index), e.site(ins), Not(sd.c))
					e.loopsSeen[fmt.Sprintf("%s#b%d", shortFn(fr.fn.String()), B.Index)] = fmt.Sprintf("unwind=%d", e.unwind)
					continue
				}
				if loops && sv >= 2 {
					if !e.feasible(st, sd.c) {
						continue
					}
				}
				var s *State
				if k == 0 {
					s = st.fork()
				} else {
					s = st
				}
				s.assume(sd.c)
				e.paths++
				if e.enter(s, sd.t, im) {
					arrived = append(arrived, s)
					continue
				}
				for _, o := range e.runSide(s, im) {
					if o.status == stAtMarker && o.top().id == fr.id && o.top().block == J {
						arrived = append(arrived, o)
					} else {
						done = append(done, o)
					}
				}
			}
			if len(arrived) == 0 {
				return done
			}
			st = e.mergeStates(arrived)
			if im == m {
				st.status = stAtMarker
				return append(done, st)
			}
			st.status = stRunning
		case *ssa.Return:
			var rv Value
			switch len(ins.Results) {
			case 0:
			case 1:
				rv = e.get(st, fr, ins.Results[0])
			default:
				es := make([]Value, len(ins.Results))
				for i, r := range ins.Results {
					es[i] = e.get(st, fr, r)
				}
				rv = &TupleV{E: es}
			}
			st.frames = st.frames[:len(st.frames)-1]
			st.ret = rv
			st.retFrame = fr.id
			st.status = stReturned
			return append(done, st)
		case *ssa.Panic:
			e.addObl(st, "panic-free", "panic@"+e.site(ins), e.site(ins), False())
			st.status = stPanicked
			return append(done, st)
		case *ssa.RunDefers:
			fr.ip++
			ds := fr.defers
			fr.defers = nil
			alive := true
			for i := len(ds) - 1; i >= 0 && alive; i-- {
				d := ds[i]
				res, others := e.invoke(st, &callInfo{instr: ins, common: d.call, site: e.site(ins)}, d.fn, d.args)
				done = append(done, others...)
				if res == nil {
					alive = false
					break
				}
				st = res
			}
			if !alive {
				return done
			}
		case *ssa.Call:
			fr.ip++
			fnv, args := e.prepareCall(st, fr, &ins.Call)
			res, others := e.invoke(st, &callInfo{instr: ins, common: &ins.Call, site: e.site(ins)}, fnv, args)
			done = append(done, others...)
			if res == nil {
				return done
			}
			st = res
			if st.ret != nil {
				st.top().env[ins] = st.ret
			} else if ins.Type() != nil {
				if tup, ok := ins.Type().(*types.Tuple); !ok || tup.Len() > 0 {
					st.top().env[ins] = zeroValue(ins.Type())
				}
			}
			st.ret = nil
		case *ssa.Defer:
			fr.ip++
			fnv, args := e.prepareCall(st, fr, &ins.Call)
			fr.defers = append(fr.defers, deferred{fn: fnv, call: &ins.Call, args: args})
		case *ssa.Go:
			fr.ip++
			name := "go@" + e.site(ins)
			if c := ins.Call.StaticCallee(); c != nil {
				name = shortFn(c.String())
			}
			e.spawned = append(e.spawned, name)
		default:
			fr.ip++
			e.step(st, fr, instr)
		}
	}
}

// prepareCall evaluates the callee and arguments of a call.
func (e *Engine) prepareCall(st *State, fr *Frame, c *ssa.CallCommon) (Value, []Value) {
	var args []Value
	var fnv Value
	if c.IsInvoke() {
		recv := e.get(st, fr, c.Value)
		args = append(args, recv)
	} else if _, ok := c.Value.(*ssa.Builtin); ok {
		fnv = nil
	} else if c.StaticCallee() != nil {
		if mc, ok := c.Value.(*ssa.MakeClosure); ok {
			fnv = e.get(st, fr, mc)
		}
	} else {
		fnv = e.get(st, fr, c.Value)
	}
	for _, a := range c.Args {
		args = append(args, e.get(st, fr, a))
	}
	return fnv, args
}

// invoke performs a call and returns the merged post-call state (nil when no
// path returns) with st.ret set, plus states that terminated inside.
func (e *Engine) invoke(st *State, ci *callInfo, fnv Value, args []Value) (*State, []*State) {
	c := ci.common
	st.ret = nil
	if b, ok := c.Value.(*ssa.Builtin); ok && !c.IsInvoke() {
		st.ret = e.builtin(st, ci, b, args)
		return st, nil
	}
	if c.IsInvoke() {
		recv := args[0].(*IfaceV)
		return e.invokeIface(st, ci, recv, c.Method, args[1:])
	}
	if callee := c.StaticCallee(); callee != nil {
		var binds []Value
		if fv, ok := fnv.(*FuncV); ok && len(fv.A) == 1 {
			binds = fv.A[0].Binds
		}
		return e.callFn(st, ci, callee, args, binds)
	}
	fv, ok := fnv.(*FuncV)
	if !ok {
		panic(unsupported(fmt.Sprintf("call of non-function value %T at %s", fnv, ci.site)))
	}
	return e.callFuncV(st, ci, fv, args)
}

func (e *Engine) callFuncV(st *State, ci *callInfo, fv *FuncV, args []Value) (*State, []*State) {
	var live []FuncAlt
	for _, a := range fv.A {
		if a.Fn == nil && a.Name == "" {
			e.oblige(st, "panic-free", "nil-func-call@"+ci.site, ci.site, Not(a.G))
			continue
		}
		live = append(live, a)
	}
	if len(live) == 0 {
		return nil, nil
	}
	if len(live) == 1 {
		a := live[0]
		if a.Fn == nil {
			return e.callNamed(st, ci, a.Name, append([]Value{a.Recv}, args...))
		}
		return e.callFn(st, ci, a.Fn, args, a.Binds)
	}
	var outs, others []*State
	for i, a := range live {
		s := st
		if i < len(live)-1 {
			s = st.fork()
		}
		s.assume(a.G)
		r, o := e.callFn(s, ci, a.Fn, args, a.Binds)
		others = append(others, o...)
		if r != nil {
			outs = append(outs, r)
		}
	}
	if len(outs) == 0 {
		return nil, others
	}
	return e.mergeStates(outs), others
}

func (e *Engine) invokeIface(st *State, ci *callInfo, recv *IfaceV, method *types.Func, args []Value) (*State, []*State) {
	var live []IfaceAlt
	for _, a := range recv.A {
		if a.T == nil {
			e.oblige(st, "panic-free", "nil-iface-call@"+ci.site, ci.site, Not(a.G))
			continue
		}
		live = append(live, a)
	}
	if len(live) == 0 {
		return nil, nil
	}
	var outs, others []*State
	for i, a := range live {
		s := st
		if len(live) > 1 {
			if i < len(live)-1 {
				s = st.fork()
			}
			s.assume(a.G)
		}
		ms := e.prog.MethodSets.MethodSet(a.T)
		sel := ms.Lookup(method.Pkg(), method.Name())
		if sel == nil {
			panic(unsupported(fmt.Sprintf("method %s not found on %s", method.Name(), a.T)))
		}
		fn := e.prog.MethodValue(sel)
		if fn == nil {
			panic(unsupported(fmt.Sprintf("no method value for %s.%s", a.T, method.Name())))
		}
		r, o := e.callFn(s, ci, fn, append([]Value{a.V}, args...), nil)
		others = append(others, o...)
		if r != nil {
			outs = append(outs, r)
		}
	}
	if len(outs) == 0 {
		return nil, others
	}
	return e.mergeStates(outs), others
}

func (e *Engine) isRepo(fn *ssa.Function) bool {
	if fn.Pkg == nil {
		if fn.Origin() != nil && fn.Origin().Pkg != nil {
			return strings.HasPrefix(fn.Origin().Pkg.Pkg.Path(), e.repoPrefix)
		}
		return false
	}
	return strings.HasPrefix(fn.Pkg.Pkg.Path(), e.repoPrefix)
}

func fnKey(fn *ssa.Function) string {
	if fn.Origin() != nil {
		return fn.Origin().String()
	}
	return fn.String()
}

func (e *Engine) callNamed(st *State, ci *callInfo, name string, args []Value) (*State, []*State) {
	stub, ok := e.stubs[name]
	if !ok {
		panic(unsupported("unmodelled call " + name + " at " + ci.site))
	}
	ci.name = name
	e.stubsSeen[shortFn(name)] = true
	st.ret = stub(e, st, ci, args)
	if st.status == stPanicked {
		return nil, []*State{st}
	}
	return st, nil
}

func (e *Engine) callFn(st *State, ci *callInfo, fn *ssa.Function, args []Value, binds []Value) (*State, []*State) {
	key := fnKey(fn)
	if fn.Name() == "init" && !e.isRepo(fn) {
		st.ret = nil
		return st, nil
	}
	if rd := e.redirect(key); rd != nil && rd != fn && (!e.isRepo(fn) || e.modelEnabled(rd.Name())) {
		e.stubsSeen[shortFn(key)+" -> harness model "+rd.Name()] = true
		return e.callFn(st, ci, rd, args, nil)
	}
	if stub, ok := e.stubs[key]; ok {
		ci.name = key
		e.stubsSeen[shortFn(key)] = true
		st.ret = stub(e, st, ci, args)
		if st.status == stPanicked {
			return nil, []*State{st}
		}
		return st, nil
	}
	if strings.HasPrefix(fn.Name(), "verif") && e.isRepo(fn) {
		if stub, ok := e.stubs["verif:"+intrinsicName(fn)]; ok {
			ci.name = fn.Name()
			st.ret = stub(e, st, ci, args)
			if st.status == stPanicked || st.status == stFinished {
				return nil, []*State{st}
			}
			return st, nil
		}
	}
	if len(fn.Blocks) == 0 {
		panic(unsupported("unmodelled call (no body) " + key + " at " + ci.site))
	}
	if !e.isRepo(fn) && !interpretable(key) {
		panic(unsupported("unmodelled call " + key + " at " + ci.site))
	}
	if st.depth > 60 {
		panic(unsupported("call depth exceeded at " + key))
	}
	nf := e.newFrame(fn, args, binds)
	st.frames = append(st.frames, nf)
	st.depth++
	outs := e.runUntil(st, marker{nf.id, nil})
	var rets, others []*State
	for _, o := range outs {
		if o.status == stReturned && o.retFrame == nf.id {
			o.status = stRunning
			o.depth--
			rets = append(rets, o)
		} else {
			others = append(others, o)
		}
	}
	if len(rets) == 0 {
		return nil, others
	}
	return e.mergeStates(rets), others
}

func mangle(key string) string {
	r := strings.NewReplacer("/", "_", ".", "_", "(", "", ")", "", "*", "", "-", "_")
	return "verifStub_" + r.Replace(key)
}

// redirect finds a harness-defined model (plain Go in the harness package) for a callee.
func (e *Engine) redirect(key string) *ssa.Function {
	if e.redirects == nil {
		return nil
	}
	if f, ok := e.redirects[key]; ok {
		return f
	}
	f := e.mainPkg.Func(mangle(key))
	e.redirects[key] = f
	return f
}

// modelEnabled: harness models that replace functions of the repository itself are opt-in per harness.
func (e *Engine) modelEnabled(name string) bool {
	for sub := range e.enabledModels {
		if strings.Contains(name, sub) {
			return true
		}
	}
	return false
}

// callback runs a function value to completion from inside a stub; st is
// updated in place to the merged post-state.
func (e *Engine) callback(st *State, ci *callInfo, fv *FuncV, args []Value) Value {
	res, _ := e.callFuncV(st, ci, fv, args)
	if res == nil {
		panic(unsupported("callback does not return at " + ci.site))
	}
	ret := res.ret
	if res != st {
		*st = *res
	}
	st.ret = nil
	st.status = stRunning
	return ret
}

func intrinsicName(fn *ssa.Function) string {
	n := fn.Name()
	if i := strings.Index(n, "["); i >= 0 {
		n = n[:i]
	}
	return n
}

// interpretable lists non-repo code that is executed from its own SSA.
func interpretable(key string) bool {
	for _, p := range []string{"encoding/binary.", "(encoding/binary.", "(*encoding/binary.", "bytes.", "(*bytes.", "errors.New", "(*errors.errorString)",
		"io.ReadFull", "io.ReadAtLeast", "(*strings.Reader)", "strings.NewReader", "(*strings.Builder)", "strings.HasPrefix", "strings.TrimSpace",
		"(*github.com/glowlabs-org/gca-backend", "(github.com/glowlabs-org/gca-backend", "unicode/utf8.", "sort.Slice", "(net/url.Values).Get",
		"math.Float64bits", "math.Float64frombits", "internal/bytealg.", "(*bufio.Scanner)", "bufio.", "strings.", "math/bits.", "internal/byteorder.", "slices.", "cmp."} {
		if strings.HasPrefix(key, p) {
			return true
		}
	}
	return false
}

// ---- value lookup ----

func (e *Engine) get(st *State, fr *Frame, v ssa.Value) Value {
	switch x := v.(type) {
	case *ssa.Const:
		return e.constValue(x)
	case *ssa.Global:
		return singlePtr(&Loc{Obj: e.globalObj(st, x)})
	case *ssa.Function:
		return singleFunc(x, nil)
	case *ssa.Builtin:
		return &FuncV{A: []FuncAlt{{G: True(), Name: "builtin:" + x.Name()}}}
	}
	val, ok := fr.env[v]
	if !ok {
		panic(fmt.Sprintf("no value for %s (%T) in %s", v.Name(), v, fr.fn))
	}
	return val
}

func (e *Engine) globalObj(st *State, g *ssa.Global) int {
	id, ok := e.globals[g]
	if !ok {
		e.nextObj++
		id = e.nextObj
		e.globals[g] = id
	}
	if _, ok := st.heap[id]; !ok {
		if iv, ok := e.initHeap[id]; ok {
			st.heap[id] = iv
			return id
		}
		et := g.Type().(*types.Pointer).Elem()
		zv := zeroValue(et)
		// sentinel errors of foreign packages
		if types.Identical(et, types.Universe.Lookup("error").Type()) && !strings.HasPrefix(g.Pkg.Pkg.Path(), e.repoPrefix) {
			zv = e.sentinelError(st, g.Pkg.Pkg.Path()+"."+g.Name())
		}
		st.heap[id] = zv
	}
	return id
}

var errorStringType types.Type

func (e *Engine) sentinelError(st *State, msg string) Value {
	return e.newError(st, msg)
}

// newError builds a non-nil error value (*errors.errorString).
func (e *Engine) newError(st *State, msg string) Value {
	if errorStringType == nil {
		pkg := e.prog.ImportedPackage("errors")
		errorStringType = types.NewPointer(pkg.Type("errorString").Type())
	}
	e.nextObj++
	id := e.nextObj
	st.heap[id] = &StructV{F: []Value{strConst(msg)}}
	return singleIface(errorStringType, singlePtr(&Loc{Obj: id}))
}

func (e *Engine) constValue(c *ssa.Const) Value {
	t := c.Type()
	if c.Value == nil {
		return zeroValue(t)
	}
	switch u := t.Underlying().(type) {
	case *types.Basic:
		switch {
		case u.Info()&types.IsBoolean != 0:
			return Bool(constant.BoolVal(c.Value))
		case u.Info()&types.IsString != 0:
			return strConst(constant.StringVal(c.Value))
		case u.Info()&types.IsInteger != 0:
			w, _ := basicWidth(u)
			bi, ok := new(big.Int).SetString(constant.ToInt(c.Value).ExactString(), 10)
			if !ok {
				panic("const int parse")
			}
			return BV(bi, w)
		case u.Info()&types.IsFloat != 0:
			f, _ := constant.Float64Val(c.Value)
			w, _ := basicWidth(u)
			if w == 32 {
				return BVu(uint64(math.Float32bits(float32(f))), 32)
			}
			return BVu(math.Float64bits(f), 64)
		}
	}
	panic(unsupported("constant of type " + t.String()))
}

// ---- heap access through pointers ----

func (e *Engine) alloc(st *State, v Value) *Loc {
	e.nextObj++
	st.heap[e.nextObj] = v
	return &Loc{Obj: e.nextObj}
}

func (e *Engine) loadLoc(st *State, l *Loc) Value {
	root, ok := st.heap[l.Obj]
	if !ok {
		if iv, ok2 := e.initHeap[l.Obj]; ok2 {
			st.heap[l.Obj] = iv
			root = iv
		} else {
			panic(fmt.Sprintf("load from unknown object %d", l.Obj))
		}
	}
	return readPath(root, l.Path)
}

func (e *Engine) storeLoc(st *State, l *Loc, v Value, g *Term) {
	root, ok := st.heap[l.Obj]
	if !ok {
		if iv, ok2 := e.initHeap[l.Obj]; ok2 {
			root = iv
		} else {
			panic(fmt.Sprintf("store to unknown object %d", l.Obj))
		}
	}
	if !g.IsTrue() {
		v = mergeV(g, v, readPath(root, l.Path))
	}
	st.heap[l.Obj] = writePath(root, l.Path, v)
}

func (e *Engine) nonNil(st *State, p *PtrV, site, what string) []PtrAlt {
	var live []PtrAlt
	for _, a := range p.A {
		if a.L == nil {
			e.oblige(st, "panic-free", "nil-deref@"+site, site, Not(a.G))
			continue
		}
		live = append(live, a)
	}
	return live
}

func (e *Engine) load(st *State, pv Value, site string) Value {
	p := pv.(*PtrV)
	live := e.nonNil(st, p, site, "load")
	if len(live) == 0 {
		st.assume(False())
		return nil
	}
	var acc Value
	for i := len(live) - 1; i >= 0; i-- {
		v := e.loadLoc(st, live[i].L)
		e.lockCheck(st, live[i].L, site)
		if acc == nil {
			acc = v
		} else {
			acc = mergeV(live[i].G, v, acc)
		}
	}
	return acc
}

func (e *Engine) store(st *State, pv Value, v Value, site string) {
	p := pv.(*PtrV)
	live := e.nonNil(st, p, site, "store")
	for _, a := range live {
		g := a.G
		if len(live) == 1 {
			g = True()
		}
		e.lockCheck(st, a.L, site)
		e.storeLoc(st, a.L, v, g)
	}
}

func (e *Engine) lockCheck(st *State, l *Loc, site string) {
	// implemented in locks.go when lock watching is enabled
	if e.watchLocks {
		e.checkGuarded(st, l, site)
	}
}

// ---- instruction semantics ----

func (e *Engine) step(st *State, fr *Frame, instr ssa.Instruction) {
	site := e.site(instr)
	switch ins := instr.(type) {
	case *ssa.DebugRef:
	case *ssa.Alloc:
		et := ins.Type().(*types.Pointer).Elem()
		l := e.alloc(st, zeroValue(et))
		if _, ok := et.Underlying().(*types.Struct); ok {
			e.objTypes[l.Obj] = et
		}
		fr.env[ins] = singlePtr(l)
	case *ssa.Store:
		e.store(st, e.get(st, fr, ins.Addr), e.get(st, fr, ins.Val), site)
	case *ssa.UnOp:
		x := e.get(st, fr, ins.X)
		switch ins.Op {
		case token.MUL:
			fr.env[ins] = e.load(st, x, site)
			if fr.env[ins] == nil {
				fr.env[ins] = zeroValue(ins.Type())
			}
		case token.NOT:
			fr.env[ins] = Not(x.(*Term))
		case token.SUB:
			t := x.(*Term)
			if isFloat(ins.Type()) {
				fr.env[ins] = BXor(t, BV(new(big.Int).Lsh(bigOne, 63), 64))
			} else {
				fr.env[ins] = Neg(t)
			}
		case token.XOR:
			fr.env[ins] = BNot(x.(*Term))
		default:
			panic(unsupported("unop " + ins.Op.String() + " at " + site))
		}
	case *ssa.BinOp:
		fr.env[ins] = e.binop(st, ins, e.get(st, fr, ins.X), e.get(st, fr, ins.Y), site)
	case *ssa.ChangeType:
		fr.env[ins] = e.get(st, fr, ins.X)
	case *ssa.ChangeInterface:
		fr.env[ins] = e.get(st, fr, ins.X)
	case *ssa.Convert:
		fr.env[ins] = e.convert(st, e.get(st, fr, ins.X), ins.X.Type(), ins.Type(), site)
	case *ssa.MakeInterface:
		fr.env[ins] = singleIface(ins.X.Type(), e.get(st, fr, ins.X))
	case *ssa.MakeClosure:
		binds := make([]Value, len(ins.Bindings))
		for i, b := range ins.Bindings {
			binds[i] = e.get(st, fr, b)
		}
		fr.env[ins] = singleFunc(ins.Fn.(*ssa.Function), binds)
	case *ssa.MakeMap:
		mt := ins.Type().Underlying().(*types.Map)
		l := e.alloc(st, &MapObj{T: mt})
		fr.env[ins] = singleMap(l.Obj)
	case *ssa.MakeSlice:
		ln := Resize(e.get(st, fr, ins.Len).(*Term), 64, isSigned(ins.Len.Type()))
		cp := Resize(e.get(st, fr, ins.Cap).(*Term), 64, isSigned(ins.Cap.Type()))
		fr.env[ins] = e.makeSlice(st, ins.Type().Underlying().(*types.Slice).Elem(), ln, cp, site)
	case *ssa.Extract:
		fr.env[ins] = e.get(st, fr, ins.Tuple).(*TupleV).E[ins.Index]
	case *ssa.Field:
		fr.env[ins] = e.get(st, fr, ins.X).(*StructV).F[ins.Field]
	case *ssa.FieldAddr:
		p := e.get(st, fr, ins.X).(*PtrV)
		live := e.nonNil(st, p, site, "fieldaddr")
		out := &PtrV{}
		for _, a := range live {
			out.A = append(out.A, PtrAlt{G: a.G, L: extendLoc(a.L, Step{Field: ins.Field})})
		}
		if len(out.A) == 1 {
			out.A[0].G = True()
		}
		fr.env[ins] = out
	case *ssa.Index:
		x := e.get(st, fr, ins.X)
		idx := Resize(e.get(st, fr, ins.Index).(*Term), 64, isSigned(ins.Index.Type()))
		switch a := x.(type) {
		case *ArrayV:
			e.oblige(st, "panic-free", "index@"+site, site, Ult(idx, BVu(uint64(len(a.E)), 64)))
			fr.env[ins] = readPath(a, []Step{{Field: -1, Idx: idx}})
		case *BigArrV:
			e.oblige(st, "panic-free", "index@"+site, site, Ult(idx, a.N))
			fr.env[ins] = a.get(idx)
		case *StrV:
			e.oblige(st, "panic-free", "index@"+site, site, Ult(idx, a.Len))
			fr.env[ins] = strIndex(a, idx)
		default:
			panic(unsupported(fmt.Sprintf("Index on %T", x)))
		}
	case *ssa.IndexAddr:
		x := e.get(st, fr, ins.X)
		idx := Resize(e.get(st, fr, ins.Index).(*Term), 64, isSigned(ins.Index.Type()))
		switch a := x.(type) {
		case *PtrV: // *array
			n := ins.X.Type().Underlying().(*types.Pointer).Elem().Underlying().(*types.Array).Len()
			live := e.nonNil(st, a, site, "indexaddr")
			e.oblige(st, "panic-free", "index@"+site, site, Ult(idx, BVu(uint64(n), 64)))
			out := &PtrV{}
			for _, al := range live {
				out.A = append(out.A, PtrAlt{G: al.G, L: extendLoc(al.L, Step{Field: -1, Idx: idx})})
			}
			if len(out.A) == 1 {
				out.A[0].G = True()
			}
			fr.env[ins] = out
		case *SliceV:
			out := &PtrV{}
			var inb []*Term
			for _, al := range a.A {
				if al.Base == nil {
					inb = append(inb, Not(al.G))
					continue
				}
				inb = append(inb, Or(Not(al.G), Ult(idx, al.Len)))
				out.A = append(out.A, PtrAlt{G: al.G, L: extendLoc(al.Base, Step{Field: -1, Idx: Add(al.Off, idx)})})
			}
			e.oblige(st, "panic-free", "index@"+site, site, And(inb...))
			if len(out.A) == 1 {
				out.A[0].G = True()
			}
			fr.env[ins] = out
		default:
			panic(unsupported(fmt.Sprintf("IndexAddr on %T", x)))
		}
	case *ssa.Slice:
		fr.env[ins] = e.sliceOp(st, fr, ins, site)
	case *ssa.Lookup:
		x := e.get(st, fr, ins.X)
		k := e.get(st, fr, ins.Index)
		if s, ok := x.(*StrV); ok {
			idx := Resize(k.(*Term), 64, isSigned(ins.Index.Type()))
			e.oblige(st, "panic-free", "index@"+site, site, Ult(idx, s.Len))
			fr.env[ins] = strIndex(s, idx)
			break
		}
		v, ok := e.mapLookup(st, x.(*MapV), k, ins.X.Type().Underlying().(*types.Map))
		if ins.CommaOk {
			fr.env[ins] = &TupleV{E: []Value{v, ok}}
		} else {
			fr.env[ins] = v
		}
	case *ssa.MapUpdate:
		e.mapUpdate(st, e.get(st, fr, ins.Map).(*MapV), e.get(st, fr, ins.Key), e.get(st, fr, ins.Value), site)
	case *ssa.Range:
		x := e.get(st, fr, ins.X)
		switch m := x.(type) {
		case *MapV:
			fr.env[ins] = &OpaqueV{Kind: "mapiter", Data: &mapIter{snap: e.mapSnapshot(st, m), mt: ins.X.Type().Underlying().(*types.Map)}}
		case *StrV:
			fr.env[ins] = &OpaqueV{Kind: "striter", Data: &strIter{s: m}}
		default:
			panic(unsupported(fmt.Sprintf("range over %T", x)))
		}
	case *ssa.Next:
		it := e.get(st, fr, ins.Iter).(*OpaqueV)
		switch d := it.Data.(type) {
		case *mapIter:
			nit := *d
			ok, k, v := nit.next()
			fr.env[ins.Iter] = &OpaqueV{Kind: "mapiter", Data: &nit}
			if k == nil {
				k = zeroValue(d.mt.Key())
				v = zeroValue(d.mt.Elem())
			}
			fr.env[ins] = &TupleV{E: []Value{ok, k, v}}
		default:
			panic(unsupported("Next over " + it.Kind))
		}
	case *ssa.TypeAssert:
		fr.env[ins] = e.typeAssert(st, ins, e.get(st, fr, ins.X).(*IfaceV), site)
	case *ssa.SliceToArrayPointer:
		sl := e.get(st, fr, ins.X).(*SliceV)
		n := ins.Type().Underlying().(*types.Pointer).Elem().Underlying().(*types.Array).Len()
		out := &PtrV{}
		var okc []*Term
		for _, al := range sl.A {
			if al.Base == nil {
				if n == 0 {
					out.A = append(out.A, PtrAlt{G: al.G})
				} else {
					okc = append(okc, Not(al.G))
				}
				continue
			}
			okc = append(okc, Or(Not(al.G), Ule(BVu(uint64(n), 64), al.Len)))
			off, isC := al.Off.ConstInt()
			if !isC || off != 0 {
				panic(unsupported("SliceToArrayPointer with non-zero offset"))
			}
			// the backing array may be longer than the array type: when the
			// pointer is only dereferenced (the [N]T(s) conversion), hand out
			// a copy of the first n elements
			if root, have := st.heap[al.Base.Obj]; have {
				if av, isArr := readPath(root, al.Base.Path).(*ArrayV); isArr && int64(len(av.E)) != n {
					onlyLoads := true
					for _, r := range *ins.Referrers() {
						if u, ok := r.(*ssa.UnOp); !ok || u.Op != token.MUL {
							onlyLoads = false
						}
					}
					if !onlyLoads || int64(len(av.E)) < n {
						if int64(len(av.E)) < n {
							// conversion fails (obligation above); any value will do on this dead path
							out.A = append(out.A, PtrAlt{G: al.G, L: e.alloc(st, zeroValue(ins.Type().Underlying().(*types.Pointer).Elem()))})
							continue
						}
						panic(unsupported("SliceToArrayPointer into a longer backing array with the pointer escaping at " + site))
					}
					cp := make([]Value, n)
					copy(cp, av.E[:n])
					out.A = append(out.A, PtrAlt{G: al.G, L: e.alloc(st, &ArrayV{E: cp, T: av.T})})
					continue
				}
			}
			out.A = append(out.A, PtrAlt{G: al.G, L: al.Base})
		}
		e.oblige(st, "panic-free", "slice2arr@"+site, site, And(okc...))
		fr.env[ins] = out
	default:
		panic(unsupported(fmt.Sprintf("instruction %T at %s", instr, site)))
	}
}

func (e *Engine) typeAssert(st *State, ins *ssa.TypeAssert, x *IfaceV, site string) Value {
	_, toIface := ins.AssertedType.Underlying().(*types.Interface)
	var okc []*Term
	var val Value
	for _, a := range x.A {
		var match bool
		if a.T != nil {
			if toIface {
				match = types.Implements(a.T, ins.AssertedType.Underlying().(*types.Interface))
			} else {
				match = types.Identical(a.T, ins.AssertedType)
			}
		}
		if match {
			okc = append(okc, a.G)
			var v Value = a.V
			if toIface {
				v = &IfaceV{A: []IfaceAlt{{G: True(), T: a.T, V: a.V}}}
			}
			if val == nil {
				val = v
			} else {
				val = mergeV(a.G, v, val)
			}
		}
	}
	ok := Or(okc...)
	if val == nil {
		val = zeroValue(ins.AssertedType)
	}
	if ins.CommaOk {
		return &TupleV{E: []Value{val, ok}}
	}
	e.oblige(st, "panic-free", "type-assert@"+site, site, ok)
	return val
}

func strIndex(s *StrV, idx *Term) *Term {
	if k, ok := idx.ConstInt(); ok {
		if k < len(s.B) {
			return s.B[k]
		}
		return BVu(0, 8)
	}
	acc := BVu(0, 8)
	for k := len(s.B) - 1; k >= 0; k-- {
		acc = Ite(Eq(idx, BVu(uint64(k), 64)), s.B[k], acc)
	}
	return acc
}

func (e *Engine) makeSlice(st *State, elem types.Type, ln, cp *Term, site string) Value {
	e.oblige(st, "panic-free", "makeslice@"+site, site, And(Sle(BVu(0, 64), ln), Sle(ln, cp)))
	if n, ok := cp.ConstInt(); ok && n < bigArrThreshold*4 {
		es := make([]Value, n)
		if n > 0 {
			z := zeroValue(elem)
			for i := range es {
				es[i] = z
			}
		}
		l := e.alloc(st, &ArrayV{E: es, T: elem})
		return singleSlice(l, BVu(0, 64), ln, cp)
	}
	l := e.alloc(st, newBigArr(elem, cp, ""))
	return singleSlice(l, BVu(0, 64), ln, cp)
}

func (e *Engine) sliceOp(st *State, fr *Frame, ins *ssa.Slice, site string) Value {
	x := e.get(st, fr, ins.X)
	var lo, hi, mx *Term
	gi := func(v ssa.Value) *Term {
		if v == nil {
			return nil
		}
		return Resize(e.get(st, fr, v).(*Term), 64, isSigned(v.Type()))
	}
	lo, hi, mx = gi(ins.Low), gi(ins.High), gi(ins.Max)
	if lo == nil {
		lo = BVu(0, 64)
	}
	switch a := x.(type) {
	case *StrV:
		if hi == nil {
			hi = a.Len
		}
		e.oblige(st, "panic-free", "slice-bounds@"+site, site, And(Ule(lo, hi), Ule(hi, a.Len)))
		k, ok := lo.ConstInt()
		if !ok {
			panic(unsupported("string slice with symbolic low bound at " + site))
		}
		if k > len(a.B) {
			k = len(a.B)
		}
		nb := a.B[k:]
		if h, ok := hi.ConstInt(); ok && h-k <= len(nb) && h >= k {
			nb = nb[:h-k]
		}
		return &StrV{B: nb, Len: Sub(hi, lo)}
	case *PtrV: // *array
		n := ins.X.Type().Underlying().(*types.Pointer).Elem().Underlying().(*types.Array).Len()
		N := BVu(uint64(n), 64)
		if hi == nil {
			hi = N
		}
		if mx == nil {
			mx = N
		}
		live := e.nonNil(st, a, site, "slice")
		e.oblige(st, "panic-free", "slice-bounds@"+site, site, And(Ule(lo, hi), Ule(hi, mx), Ule(mx, N)))
		out := &SliceV{}
		for _, al := range live {
			out.A = append(out.A, SliceAlt{G: al.G, Base: al.L, Off: lo, Len: Sub(hi, lo), Cap: Sub(mx, lo)})
		}
		if len(out.A) == 1 {
			out.A[0].G = True()
		}
		return out
	case *SliceV:
		out := &SliceV{}
		var okc []*Term
		for _, al := range a.A {
			h, m := hi, mx
			if h == nil {
				h = al.Len
			}
			if m == nil {
				m = al.Cap
			}
			okc = append(okc, Or(Not(al.G), And(Ule(lo, h), Ule(h, m), Ule(m, al.Cap))))
			if al.Base == nil {
				out.A = append(out.A, al)
				continue
			}
			out.A = append(out.A, SliceAlt{G: al.G, Base: al.Base, Off: Add(al.Off, lo), Len: Sub(h, lo), Cap: Sub(m, lo)})
		}
		e.oblige(st, "panic-free", "slice-bounds@"+site, site, And(okc...))
		return out
	}
	panic(unsupported(fmt.Sprintf("slice of %T", x)))
}

func (e *Engine) binop(st *State, ins *ssa.BinOp, xv, yv Value, site string) Value {
	op := ins.Op
	xt := ins.X.Type()
	if op == token.EQL || op == token.NEQ {
		r := eqValue(xv, yv, xt)
		if op == token.NEQ {
			r = Not(r)
		}
		return r
	}
	if sx, ok := xv.(*StrV); ok {
		sy := yv.(*StrV)
		switch op {
		case token.ADD:
			return strConcat(sx, sy)
		}
		panic(unsupported("string binop " + op.String()))
	}
	x, y := xv.(*Term), yv.(*Term)
	if isFloat(xt) {
		return floatBin(op, x, y)
	}
	if x.IsBool() {
		switch op {
		case token.AND, token.LAND:
			return And(x, y)
		case token.OR, token.LOR:
			return Or(x, y)
		}
		panic(unsupported("bool binop " + op.String()))
	}
	sg := isSigned(xt)
	switch op {
	case token.ADD:
		return Add(x, y)
	case token.SUB:
		return Sub(x, y)
	case token.MUL:
		return Mul(x, y)
	case token.QUO:
		e.oblige(st, "panic-free", "div-zero@"+site, site, Not(Eq(y, BVu(0, y.W))))
		if sg {
			return SDiv(x, y)
		}
		return UDiv(x, y)
	case token.REM:
		e.oblige(st, "panic-free", "div-zero@"+site, site, Not(Eq(y, BVu(0, y.W))))
		if sg {
			return SRem(x, y)
		}
		return URem(x, y)
	case token.AND:
		return BAnd(x, y)
	case token.OR:
		return BOr(x, y)
	case token.XOR:
		return BXor(x, y)
	case token.AND_NOT:
		return BAnd(x, BNot(y))
	case token.SHL, token.SHR:
		if isSigned(ins.Y.Type()) {
			e.oblige(st, "panic-free", "neg-shift@"+site, site, Sle(BVu(0, y.W), y))
		}
		var cnt *Term
		if y.W > x.W {
			big_ := Uge(y, BVu(uint64(x.W), y.W))
			cnt = Ite(big_, BVu(uint64(x.W), x.W), Extract(y, x.W-1, 0))
		} else {
			cnt = ZExt(y, x.W-y.W)
		}
		if op == token.SHL {
			return Shl(x, cnt)
		}
		if sg {
			return AShr(x, cnt)
		}
		return LShr(x, cnt)
	case token.LSS:
		if sg {
			return Slt(x, y)
		}
		return Ult(x, y)
	case token.LEQ:
		if sg {
			return Sle(x, y)
		}
		return Ule(x, y)
	case token.GTR:
		if sg {
			return Slt(y, x)
		}
		return Ult(y, x)
	case token.GEQ:
		if sg {
			return Sle(y, x)
		}
		return Ule(y, x)
	}
	panic(unsupported("binop " + op.String()))
}

func strConcat(a, b *StrV) *StrV {
	la, oka := a.Len.ConstInt()
	if oka {
		out := &StrV{Len: Add(a.Len, b.Len)}
		out.B = append(append([]*Term(nil), a.B[:la]...), b.B...)
		return out
	}
	// symbolic split point: each output byte selects by position
	n := len(a.B) + len(b.B)
	out := &StrV{Len: Add(a.Len, b.Len), B: make([]*Term, n)}
	for i := 0; i < n; i++ {
		I := BVu(uint64(i), 64)
		var fromA *Term = BVu(0, 8)
		if i < len(a.B) {
			fromA = a.B[i]
		}
		fromB := strIndex(b, Sub(I, a.Len))
		out.B[i] = Ite(Ult(I, a.Len), fromA, fromB)
	}
	return out
}

// floatBin handles float64 arithmetic/comparison on IEEE bit patterns.
func floatBin(op token.Token, x, y *Term) Value {
	if x.Op == OpConst && y.Op == OpConst && x.W == 64 {
		a, b := math.Float64frombits(x.Uint64()), math.Float64frombits(y.Uint64())
		switch op {
		case token.ADD:
			return BVu(math.Float64bits(a+b), 64)
		case token.SUB:
			return BVu(math.Float64bits(a-b), 64)
		case token.MUL:
			return BVu(math.Float64bits(a*b), 64)
		case token.QUO:
			return BVu(math.Float64bits(a/b), 64)
		case token.LSS:
			return Bool(a < b)
		case token.LEQ:
			return Bool(a <= b)
		case token.GTR:
			return Bool(a > b)
		case token.GEQ:
			return Bool(a >= b)
		}
	}
	switch op {
	case token.LSS:
		return FpLt(x, y)
	case token.LEQ:
		return FpLe(x, y)
	case token.GTR:
		return FpLt(y, x)
	case token.GEQ:
		return FpLe(y, x)
	case token.ADD, token.SUB, token.MUL, token.QUO:
		name := map[token.Token]string{token.ADD: "fp.add", token.SUB: "fp.sub", token.MUL: "fp.mul", token.QUO: "fp.div"}[op]
		return fpArith(name, x, y)
	}
	panic(unsupported("float binop " + op.String()))
}

// fpArith introduces a fresh bit pattern r with axiom to_fp(r) = op(RNE, to_fp(x), to_fp(y)).
func fpArith(name string, x, y *Term) *Term {
	key := fmt.Sprintf("%s|%d|%d", name, x.ID, y.ID)
	if r, ok := fpMemo[key]; ok {
		return r
	}
	r := Fresh("fp", 64)
	r.Axiom = UF("@"+name, 0, r, x, y)
	fpMemo[key] = r
	return r
}

// fpMemo makes floating-point results functions of their operands (same
// operation on the same operand terms yields the same result variable).
var fpMemo = map[string]*Term{}

func (e *Engine) convert(st *State, v Value, from, to types.Type, site string) Value {
	fu, tu := from.Underlying(), to.Underlying()
	// string <-> []byte
	if isString(to) {
		switch x := v.(type) {
		case *StrV:
			return x
		case *SliceV:
			if sl, ok := fu.(*types.Slice); ok && scalarWidth(sl.Elem()) == 8 {
				return e.bytesToString(st, x, site)
			}
		case *Term:
			if x.Op == OpConst {
				return strConst(string(rune(x.Val.Int64())))
			}
		}
		panic(unsupported(fmt.Sprintf("convert %s -> string", from)))
	}
	if isString(from) {
		if sl, ok := tu.(*types.Slice); ok && scalarWidth(sl.Elem()) == 8 {
			s := v.(*StrV)
			es := make([]Value, len(s.B))
			for i, b := range s.B {
				es[i] = b
			}
			l := e.alloc(st, &ArrayV{E: es})
			return singleSlice(l, BVu(0, 64), s.Len, s.Len)
		}
		panic(unsupported(fmt.Sprintf("convert string -> %s", to)))
	}
	tb, ok1 := tu.(*types.Basic)
	fb, ok2 := fu.(*types.Basic)
	if !ok1 || !ok2 {
		if _, ok := tu.(*types.Pointer); ok {
			return v
		}
		if tb != nil && tb.Kind() == types.UnsafePointer {
			return v
		}
		if fb != nil && fb.Kind() == types.UnsafePointer {
			return v
		}
		panic(unsupported(fmt.Sprintf("convert %s -> %s at %s", from, to, site)))
	}
	if tb.Kind() == types.UnsafePointer || fb.Kind() == types.UnsafePointer {
		return v
	}
	x := v.(*Term)
	ff, tf := fb.Info()&types.IsFloat != 0, tb.Info()&types.IsFloat != 0
	tw, _ := basicWidth(tb)
	_, fs := basicWidth(fb)
	switch {
	case ff && tf:
		if x.W == tw {
			return x
		}
		panic(unsupported("float32 conversion"))
	case !ff && !tf:
		return Resize(x, tw, fs)
	case !ff && tf:
		if tw != 64 {
			panic(unsupported("float32 conversion"))
		}
		if x.Op == OpConst {
			if fs {
				return BVu(math.Float64bits(float64(signed(x.Val, x.W).Int64())), 64)
			}
			return BVu(math.Float64bits(float64(x.Val.Uint64())), 64)
		}
		r := Fresh("i2f", 64)
		if fs {
			r.Axiom = UF(fmt.Sprintf("@to_fp_signed%d", x.W), 0, r, x)
		} else {
			r.Axiom = UF(fmt.Sprintf("@to_fp_unsigned%d", x.W), 0, r, x)
		}
		return r
	default: // float -> int
		_, ts := basicWidth(tb)
		if x.Op == OpConst {
			f := math.Float64frombits(x.Uint64())
			if f == f && math.Abs(f) < 9e18 {
				return BVi(int64(f), tw)
			}
		}
		// amd64: CVTTSD2SQ (signed 64-bit truncation); uint64 targets use the
		// same path for values below 2^63 and a subtract-2^63 path above.
		if ts || tw < 64 {
			r := UF("@fp_to_sbv64", 64, x)
			return Resize(r, tw, true)
		}
		small := FpLt(x, BVu(math.Float64bits(9223372036854775808.0), 64))
		lo := UF("@fp_to_sbv64", 64, x)
		hi := BXor(UF("@fp_to_sbv64", 64, fpArith("fp.sub", x, BVu(math.Float64bits(9223372036854775808.0), 64))), BV(new(big.Int).Lsh(bigOne, 63), 64))
		return Ite(small, lo, hi)
	}
}

func (e *Engine) bytesToString(st *State, x *SliceV, site string) *StrV {
	var acc *StrV
	for i := len(x.A) - 1; i >= 0; i-- {
		al := x.A[i]
		var s *StrV
		if al.Base == nil {
			s = &StrV{Len: BVu(0, 64)}
		} else {
			n, ok := e.lenBound(st, al)
			if !ok {
				panic(unsupported("string(bytes) with unbounded symbolic length at " + site))
			}
			s = &StrV{Len: al.Len, B: make([]*Term, n)}
			for k := 0; k < n; k++ {
				ev := e.loadLoc(st, extendLoc(al.Base, Step{Field: -1, Idx: Add(al.Off, BVu(uint64(k), 64))}))
				s.B[k] = ev.(*Term)
			}
		}
		if acc == nil {
			acc = s
		} else {
			acc = mergeV(al.G, s, acc).(*StrV)
		}
	}
	return acc
}

// maxConst returns a syntactic upper bound for an unsigned term.
func maxConst(t *Term) (int, bool) {
	switch t.Op {
	case OpConst:
		return t.ConstInt()
	case OpIte:
		a, ok1 := maxConst(t.Args[1])
		b, ok2 := maxConst(t.Args[2])
		if ok1 && ok2 {
			if a > b {
				return a, true
			}
			return b, true
		}
	case OpZExt:
		if t.Args[0].W <= 16 {
			if m, ok := maxConst(t.Args[0]); ok {
				return m, true
			}
			return 1<<uint(t.Args[0].W) - 1, true
		}
	case OpVar:
		if b, ok := varBounds[t.Name]; ok {
			return b, true
		}
	case OpAdd:
		if c := t.Args[1]; c.Op == OpConst && c.Val.Bit(t.W-1) == 1 {
			return maxConst(t.Args[0]) // x - k
		}
		a, ok1 := maxConst(t.Args[0])
		b, ok2 := maxConst(t.Args[1])
		if ok1 && ok2 {
			return a + b, true
		}
	case OpSub:
		// x - c with c small constant: bounded by max(x)
		if t.Args[1].Op == OpConst {
			return maxConst(t.Args[0])
		}
	}
	return 0, false
}

// varBounds records declared upper bounds of symbolic length variables.
var varBounds = map[string]int{}

func sortedKeys(m map[string]bool) []string {
	var ks []string
	for k := range m {
		ks = append(ks, k)
	}
	sort.Strings(ks)
	return ks
}

// mergeFiles merges two ghost file states (element-wise contents are padded to
// the same capacity; mixed representations fall back to SMT arrays).
func mergeFiles(c *Term, a, b *StructV) *StructV {
	ea, aok := a.F[2].(*ArrayV)
	eb, bok := b.F[2].(*ArrayV)
	out := &StructV{F: []Value{Ite(c, a.F[0].(*Term), b.F[0].(*Term)), Ite(c, a.F[1].(*Term), b.F[1].(*Term)), nil}}
	if aok && bok {
		n := len(ea.E)
		if len(eb.E) > n {
			n = len(eb.E)
		}
		es := make([]Value, n)
		for k := 0; k < n; k++ {
			var x, y *Term = BVu(0, 8), BVu(0, 8)
			if k < len(ea.E) {
				x = ea.E[k].(*Term)
			}
			if k < len(eb.E) {
				y = eb.E[k].(*Term)
			}
			es[k] = Ite(c, x, y)
		}
		out.F[2] = &ArrayV{E: es, T: ea.T}
		return out
	}
	arr := func(v Value) *Term {
		if t, ok := v.(*Term); ok {
			return t
		}
		return fileState{elems: v.(*ArrayV)}.arrayOf()
	}
	out.F[2] = Ite(c, arr(a.F[2]), arr(b.F[2]))
	return out
}

func absentFile() *StructV {
	return &StructV{F: []Value{False(), BVu(0, 64), &ArrayV{T: types.Typ[types.Uint8]}}}
}

// isTautology decides propositional validity of t over its atoms (sub-terms
// that are not and/or/not) by truth table when there are at most 12 atoms.
// Merging all paths of a branch tree yields such disjunctions.
func isTautology(t *Term) bool {
	var atoms []*Term
	idx := map[int]int{}
	var collect func(x *Term) bool
	collect = func(x *Term) bool {
		switch x.Op {
		case OpTrue, OpFalse:
			return true
		case OpAnd, OpOr, OpNot:
			for _, a := range x.Args {
				if !collect(a) {
					return false
				}
			}
			return true
		}
		if _, ok := idx[x.ID]; !ok {
			if len(atoms) >= 12 {
				return false
			}
			idx[x.ID] = len(atoms)
			atoms = append(atoms, x)
		}
		return true
	}
	if !collect(t) {
		return false
	}
	var ev func(x *Term, m int) bool
	ev = func(x *Term, m int) bool {
		switch x.Op {
		case OpTrue:
			return true
		case OpFalse:
			return false
		case OpNot:
			return !ev(x.Args[0], m)
		case OpAnd:
			for _, a := range x.Args {
				if !ev(a, m) {
					return false
				}
			}
			return true
		case OpOr:
			for _, a := range x.Args {
				if ev(a, m) {
					return true
				}
			}
			return false
		}
		return m>>uint(idx[x.ID])&1 == 1
	}
	for m := 0; m < 1<<uint(len(atoms)); m++ {
		if !ev(t, m) {
			return false
		}
	}
	return true
}
