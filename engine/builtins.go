package main

import (
	"fmt"
	"os"
	"go/types"
	"strings"

	"golang.org/x/tools/go/ssa"
)

// ctx simplifies a boolean term to a constant when the path condition decides it syntactically.
func ctx(st *State, t *Term) *Term {
	if t.IsConst() || os.Getenv("GOSYM_NOCTX") != "" {
		return t
	}
	switch st.implied(t) {
	case 1:
		return True()
	case -1:
		return False()
	}
	return t
}

// ---- maps ----

type mapIter struct {
	snap []MapEnt
	mt   *types.Map
	pos  int
}

type strIter struct {
	s   *StrV
	pos int
}

func (e *Engine) mapObj(st *State, id int) *MapObj {
	v, ok := st.heap[id]
	if !ok {
		if iv, ok2 := e.initHeap[id]; ok2 {
			st.heap[id] = iv
			v = iv
		}
	}
	return v.(*MapObj)
}

// mapEntries returns the candidate entries of a (possibly multi-alternative) map value.
func (e *Engine) mapSnapshot(st *State, m *MapV) []MapEnt {
	var out []MapEnt
	for _, al := range m.A {
		if al.Obj == 0 {
			continue
		}
		for _, en := range e.mapObj(st, al.Obj).Ents {
			p := And(al.G, en.P)
			if p.IsFalse() {
				continue
			}
			out = append(out, MapEnt{K: en.K, V: en.V, P: p})
		}
	}
	return out
}

func (e *Engine) mapLookup(st *State, m *MapV, k Value, mt *types.Map) (Value, *Term) {
	var val Value = zeroValue(mt.Elem())
	found := False()
	ents := e.mapSnapshot(st, m)
	for i := len(ents) - 1; i >= 0; i-- {
		en := ents[i]
		hit := ctx(st, And(en.P, eqKey(en.K, k, mt.Key())))
		if hit.IsFalse() {
			continue
		}
		val = mergeV(hit, en.V, val)
		found = Or(found, hit)
	}
	return val, found
}

func eqKey(a, b Value, t types.Type) *Term {
	if isFloat(t) {
		panic(unsupported("float map keys"))
	}
	return eqValue(a, b, t)
}

func (e *Engine) mapUpdate(st *State, m *MapV, k, v Value, site string) {
	for _, al := range m.A {
		if al.Obj == 0 {
			e.oblige(st, "panic-free", "nil-map-write@"+site, site, Not(al.G))
		}
	}
	for _, al := range m.A {
		if al.Obj == 0 {
			continue
		}
		g := al.G
		if len(m.A) == 1 {
			g = True()
		}
		mo := e.mapObj(st, al.Obj)
		nm := &MapObj{T: mo.T, Ents: make([]MapEnt, len(mo.Ents), len(mo.Ents)+1)}
		anyHit := False()
		for i, en := range mo.Ents {
			hit := ctx(st, And(g, en.P, eqKey(en.K, k, mo.T.Key())))
			nm.Ents[i] = MapEnt{K: en.K, V: mergeV(hit, v, en.V), P: en.P}
			anyHit = Or(anyHit, hit)
		}
		np := And(g, Not(anyHit))
		if !np.IsFalse() {
			// reuse a dead slot with a syntactically identical key
			reused := false
			for i, en := range nm.Ents {
				if sameValue(en.K, k) {
					nm.Ents[i] = MapEnt{K: en.K, V: mergeV(np, v, en.V), P: Or(en.P, np)}
					reused = true
					break
				}
			}
			if !reused {
				nm.Ents = append(nm.Ents, MapEnt{K: k, V: v, P: np})
			}
		}
		st.heap[al.Obj] = nm
	}
}

func (e *Engine) mapDelete(st *State, m *MapV, k Value) {
	for _, al := range m.A {
		if al.Obj == 0 {
			continue
		}
		g := al.G
		if len(m.A) == 1 {
			g = True()
		}
		mo := e.mapObj(st, al.Obj)
		nm := &MapObj{T: mo.T, Ents: make([]MapEnt, len(mo.Ents))}
		for i, en := range mo.Ents {
			hit := ctx(st, And(g, eqKey(en.K, k, mo.T.Key())))
			nm.Ents[i] = MapEnt{K: en.K, V: en.V, P: And(en.P, Not(hit))}
		}
		st.heap[al.Obj] = nm
	}
}

func (e *Engine) mapLen(st *State, m *MapV) *Term {
	n := BVu(0, 64)
	for _, en := range e.mapSnapshot(st, m) {
		n = Add(n, Ite(en.P, BVu(1, 64), BVu(0, 64)))
	}
	return n
}

// next returns (ok, key, value) for the pos-th present entry in candidate order.
func (it *mapIter) next() (*Term, Value, Value) {
	j := BVu(uint64(it.pos), 8)
	rank := BVu(0, 8)
	ok := False()
	var k, v Value
	type sel struct {
		c *Term
		k Value
		v Value
	}
	var sels []sel
	for _, en := range it.snap {
		c := And(en.P, Eq(rank, j))
		if !c.IsFalse() {
			sels = append(sels, sel{c, en.K, en.V})
			ok = Or(ok, c)
		}
		rank = Add(rank, Ite(en.P, BVu(1, 8), BVu(0, 8)))
	}
	for i := len(sels) - 1; i >= 0; i-- {
		if k == nil {
			k, v = sels[i].k, sels[i].v
		} else {
			k = mergeV(sels[i].c, sels[i].k, k)
			v = mergeV(sels[i].c, sels[i].v, v)
		}
	}
	it.pos++
	return ok, k, v
}

// ---- slices ----

func (e *Engine) sliceGet(st *State, al SliceAlt, i *Term) Value {
	return e.loadLoc(st, extendLoc(al.Base, Step{Field: -1, Idx: Add(al.Off, i)}))
}

func (e *Engine) sliceSet(st *State, al SliceAlt, i *Term, v Value, g *Term) {
	e.storeLoc(st, extendLoc(al.Base, Step{Field: -1, Idx: Add(al.Off, i)}), v, g)
}

// lenBound returns a concrete upper bound for the length of a slice
// alternative: a syntactic bound of the length term, else the size of the
// element-wise backing array (sound because slicing is bounds-checked).
func (e *Engine) lenBound(st *State, al SliceAlt) (int, bool) {
	if al.Base == nil {
		return 0, true
	}
	m, ok := maxConst(al.Len)
	root, have := st.heap[al.Base.Obj]
	if !have {
		return m, ok
	}
	if av, isArr := readPath(root, al.Base.Path).(*ArrayV); isArr {
		n := len(av.E)
		if off, isC := al.Off.ConstInt(); isC && off <= n {
			n -= off
		}
		if !ok || n < m {
			return n, true
		}
	}
	return m, ok
}

// seqView is a uniform read view over a slice alternative or a string.
type seqView struct {
	len *Term
	get func(i *Term) Value
	max int
	g   *Term
	big bool // SMT-array backed
}

func (e *Engine) views(st *State, v Value, site string) []seqView {
	switch x := v.(type) {
	case *StrV:
		return []seqView{{len: x.Len, max: len(x.B), g: True(), get: func(i *Term) Value { return strIndex(x, i) }}}
	case *SliceV:
		var out []seqView
		for _, al := range x.A {
			al := al
			if al.Base == nil {
				out = append(out, seqView{len: BVu(0, 64), max: 0, g: al.G, get: func(i *Term) Value { return nil }})
				continue
			}
			mx, ok := e.lenBound(st, al)
			if !ok {
				mx = -1
			}
			_, isBig := e.bigLeaves(st, al.Base)
			out = append(out, seqView{len: al.Len, max: mx, g: al.G, big: isBig, get: func(i *Term) Value { return e.sliceGet(st, al, i) }})
		}
		return out
	}
	panic(unsupported(fmt.Sprintf("sequence view of %T at %s", v, site)))
}

func (e *Engine) bigLeaves(st *State, l *Loc) (*BigArrV, bool) {
	root, ok := st.heap[l.Obj]
	if !ok {
		return nil, false
	}
	b, ok := readPath(root, l.Path).(*BigArrV)
	return b, ok
}

// copyBuiltin implements copy(dst, src) and returns the number of elements copied.
func (e *Engine) copyBuiltin(st *State, dst *SliceV, src Value, site string) *Term {
	svs := e.views(st, src, site)
	var total *Term
	for _, d := range dst.A {
		for _, s := range svs {
			g := And(d.G, s.g)
			if g.IsFalse() {
				continue
			}
			n := s.len
			if d.Base == nil {
				n = BVu(0, 64)
			} else {
				n = Ite(Ult(d.Len, s.len), d.Len, s.len)
			}
			if total == nil {
				total = n
			} else {
				total = Ite(g, n, total)
			}
			if d.Base == nil {
				continue
			}
			if len(dst.A) == 1 && len(svs) == 1 {
				g = True()
			}
			if e.bulkCopy(st, d, src, s, n, g) {
				continue
			}
			nmax, ok := maxConst(n)
			if db, ok2 := e.lenBound(st, d); ok2 && (!ok || db < nmax) {
				nmax, ok = db, true
			}
			if s.max >= 0 && (!ok || s.max < nmax) {
				nmax, ok = s.max, true
			}
			if !ok {
				panic(unsupported("copy with unbounded symbolic length at " + site))
			}
			vals := make([]Value, nmax)
			for k := 0; k < nmax; k++ {
				vals[k] = s.get(BVu(uint64(k), 64))
			}
			for k := 0; k < nmax; k++ {
				e.sliceSet(st, d, BVu(uint64(k), 64), vals[k], And(g, Ult(BVu(uint64(k), 64), n)))
			}
		}
	}
	if total == nil {
		total = BVu(0, 64)
	}
	return total
}

// bulkCopy handles copies into SMT-array backed destinations with a lambda.
func (e *Engine) bulkCopy(st *State, d SliceAlt, src Value, s seqView, n *Term, g *Term) bool {
	db, ok := e.bigLeaves(st, d.Base)
	if !ok {
		return false
	}
	if c, isC := n.ConstInt(); isC && c <= 64 {
		return false
	}
	// source leaf arrays
	var srcLeaf func(leaf int, j *Term) *Term
	switch x := src.(type) {
	case *SliceV:
		if len(x.A) != 1 || x.A[0].Base == nil {
			return false
		}
		sa := x.A[0]
		if sb, ok := e.bigLeaves(st, sa.Base); ok {
			srcLeaf = func(leaf int, j *Term) *Term { return Select(sb.Leaves[leaf], Add(sa.Off, j)) }
		} else {
			root := st.heap[sa.Base.Obj]
			av, ok := readPath(root, sa.Base.Path).(*ArrayV)
			if !ok || len(av.E) == 0 {
				return false
			}
			uniform := true
			for _, el := range av.E {
				if el != av.E[0] {
					uniform = false
					break
				}
			}
			if uniform {
				ls := packLeaves(av.E[0], db.Elem)
				srcLeaf = func(leaf int, j *Term) *Term { return ls[leaf] }
			} else {
				// materialise the source as store chains over a zero array
				ws, _ := flatLeaves(db.Elem)
				arrs := make([]*Term, len(ws))
				for i, w := range ws {
					arrs[i] = ConstArr(w, BVu(0, w))
				}
				for k, el := range av.E {
					ls := packLeaves(el, db.Elem)
					for i := range arrs {
						arrs[i] = Store(arrs[i], BVu(uint64(k), 64), ls[i])
					}
				}
				srcLeaf = func(leaf int, j *Term) *Term { return Select(arrs[leaf], Add(sa.Off, j)) }
			}
		}
	default:
		return false
	}
	nb := &BigArrV{N: db.N, Elem: db.Elem, Leaves: make([]*Term, len(db.Leaves))}
	for i, old := range db.Leaves {
		TF.fresh++
		j := Var(fmt.Sprintf("j!%d", TF.fresh), 64)
		rel := Sub(j, d.Off)
		in := And(g, Ule(d.Off, j), Ult(rel, n))
		nb.Leaves[i] = Lambda(j, Ite(in, srcLeaf(i, rel), Select(old, j)))
	}
	e.storeLoc(st, d.Base, nb, True())
	return true
}

func (e *Engine) appendBuiltin(st *State, s *SliceV, t Value, elem types.Type, site string) *SliceV {
	tvs := e.views(st, t, site)
	out := &SliceV{}
	_, flat := flatLeaves(elem)
	for _, sa := range s.A {
		for _, tv := range tvs {
			g := And(sa.G, tv.g)
			if g.IsFalse() {
				continue
			}
			if len(s.A) == 1 && len(tvs) == 1 {
				g = True()
			}
			n := tv.len
			nmax := tv.max // -1: unbounded
			newLen := Add(sa.Len, n)
			fits := Ule(newLen, sa.Cap)
			if sa.Base == nil {
				fits = Eq(n, BVu(0, 64))
			}
			var dstBig *BigArrV
			if sa.Base != nil {
				dstBig, _ = e.bigLeaves(st, sa.Base)
			}
			gin := And(g, fits)
			if !gin.IsFalse() {
				if sa.Base != nil {
					// how many elements can an in-place append write at most
					w := nmax
					if capC, ok1 := sa.Cap.ConstInt(); ok1 {
						if lenC, ok2 := sa.Len.ConstInt(); ok2 && (w < 0 || capC-lenC < w) {
							w = capC - lenC
						}
					}
					if dstBig != nil && (w < 0 || w > 64) {
						d := SliceAlt{G: gin, Base: sa.Base, Off: Add(sa.Off, sa.Len), Len: n, Cap: n}
						if !e.bulkCopy(st, d, t, tv, n, gin) {
							panic(unsupported("in-place append into SMT-array backed slice at " + site))
						}
					} else {
						if w < 0 {
							if lb, ok := e.lenBound(st, sa); ok {
								// element-wise backing: at most its size
								root := st.heap[sa.Base.Obj]
								if av, isArr := readPath(root, sa.Base.Path).(*ArrayV); isArr {
									w = len(av.E)
								}
								_ = lb
							}
						}
						if w < 0 {
							panic(unsupported("in-place append of unbounded length at " + site))
						}
						// memmove semantics: read the whole source before writing
						// (source and destination may share the backing array)
						src := make([]Value, w)
						for k := 0; k < w; k++ {
							if tv.max >= 0 && k >= tv.max {
								break
							}
							src[k] = tv.get(BVu(uint64(k), 64))
						}
						for k := 0; k < w; k++ {
							if src[k] == nil {
								break
							}
							K := BVu(uint64(k), 64)
							e.sliceSet(st, sa, Add(sa.Len, K), src[k], And(gin, Ult(K, n)))
						}
					}
				}
				out.A = append(out.A, SliceAlt{G: gin, Base: sa.Base, Off: sa.Off, Len: newLen, Cap: sa.Cap})
			}
			gre := And(g, Not(fits))
			if gre.IsFalse() {
				continue
			}
			lmax, lok := e.lenBound(st, sa)
			_, lc := sa.Len.ConstInt()
			_, nc := n.ConstInt()
			if lok && nmax >= 0 && (lmax+nmax <= 4096 || (lc && nc && lmax+nmax <= 1<<20)) && dstBig == nil && !tv.big {
				total := lmax + nmax
				tvals := make([]Value, nmax)
				for k := 0; k < nmax; k++ {
					tvals[k] = tv.get(BVu(uint64(k), 64))
				}
				es := make([]Value, total)
				z := zeroValue(elem)
				oldLenC, lenIsC := sa.Len.ConstInt()
				for k := 0; k < total; k++ {
					K := BVu(uint64(k), 64)
					var fromOld Value = z
					if sa.Base != nil && k < lmax {
						fromOld = e.sliceGet(st, sa, K)
					}
					if lenIsC {
						if k < oldLenC {
							es[k] = fromOld
						} else if k-oldLenC < nmax {
							es[k] = tvals[k-oldLenC]
						} else {
							es[k] = z
						}
						continue
					}
					var fromNew Value = z
					rel := Sub(K, sa.Len)
					for q := nmax - 1; q >= 0; q-- {
						fromNew = mergeV(Eq(rel, BVu(uint64(q), 64)), tvals[q], fromNew)
					}
					es[k] = mergeV(Ult(K, sa.Len), fromOld, fromNew)
				}
				l := e.alloc(st, &ArrayV{E: es, T: elem})
				out.A = append(out.A, SliceAlt{G: gre, Base: l, Off: BVu(0, 64), Len: newLen, Cap: newLen})
				continue
			}
			// large or symbolic sizes: fresh SMT-array backed object defined pointwise
			if !flat {
				panic(unsupported("append of unbounded length with non-flat elements at " + site))
			}
			nb := newBigArr(elem, newLen, "")
			ws, _ := flatLeaves(elem)
			for li := range ws {
				TF.fresh++
				j := Var(fmt.Sprintf("j!%d", TF.fresh), 64)
				var oldv *Term = BVu(0, ws[li])
				if sa.Base != nil {
					oldv = packLeaves(e.sliceGet(st, sa, j), elem)[li]
				}
				newv := packLeaves(tv.get(Sub(j, sa.Len)), elem)[li]
				nb.Leaves[li] = Lambda(j, Ite(Ult(j, sa.Len), oldv, Ite(Ult(j, newLen), newv, BVu(0, ws[li]))))
			}
			l := e.alloc(st, nb)
			out.A = append(out.A, SliceAlt{G: gre, Base: l, Off: BVu(0, 64), Len: newLen, Cap: newLen})
		}
	}
	if len(out.A) == 1 {
		out.A[0].G = True()
	}
	return out
}

func (e *Engine) builtin(st *State, ci *callInfo, b *ssa.Builtin, args []Value) Value {
	site := ci.site
	switch b.Name() {
	case "len":
		switch x := args[0].(type) {
		case *StrV:
			return x.Len
		case *SliceV:
			var acc *Term
			for i := len(x.A) - 1; i >= 0; i-- {
				if acc == nil {
					acc = x.A[i].Len
				} else {
					acc = Ite(x.A[i].G, x.A[i].Len, acc)
				}
			}
			return acc
		case *MapV:
			return e.mapLen(st, x)
		case *ArrayV:
			return BVu(uint64(len(x.E)), 64)
		case *PtrV:
			n := ci.common.Args[0].Type().Underlying().(*types.Pointer).Elem().Underlying().(*types.Array).Len()
			return BVu(uint64(n), 64)
		}
	case "cap":
		switch x := args[0].(type) {
		case *SliceV:
			var acc *Term
			for i := len(x.A) - 1; i >= 0; i-- {
				if acc == nil {
					acc = x.A[i].Cap
				} else {
					acc = Ite(x.A[i].G, x.A[i].Cap, acc)
				}
			}
			return acc
		}
	case "append":
		st0 := ci.common.Args[0].Type().Underlying().(*types.Slice)
		return e.appendBuiltin(st, args[0].(*SliceV), args[1], st0.Elem(), site)
	case "copy":
		return e.copyBuiltin(st, args[0].(*SliceV), args[1], site)
	case "delete":
		e.mapDelete(st, args[0].(*MapV), args[1])
		return nil
	case "print", "println":
		return nil
	case "recover":
		return nilIface() // panicking paths are terminated, so no panic is ever in flight in a deferred call
	case "min", "max":
		acc := args[0].(*Term)
		sg := isSigned(ci.common.Args[0].Type())
		for _, a := range args[1:] {
			t := a.(*Term)
			var lt *Term
			if sg {
				lt = Slt(t, acc)
			} else {
				lt = Ult(t, acc)
			}
			if b.Name() == "max" {
				lt = Not(lt)
			}
			acc = Ite(lt, t, acc)
		}
		return acc
	}
	panic(unsupported("builtin " + b.Name() + " at " + site))
}

// ---- helper: concrete string argument ----

func mustConcreteStr(v Value, what string) string {
	s, ok := v.(*StrV).concrete()
	if !ok {
		panic(unsupported(what + ": string argument must be concrete"))
	}
	return s
}

func hasPrefixAny(s string, ps ...string) bool {
	for _, p := range ps {
		if strings.HasPrefix(s, p) {
			return true
		}
	}
	return false
}
