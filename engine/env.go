package main

// Environment stubs: thread group, ghost disk, ghost network, http. Filled in
// incrementally; every stub hit is listed in the evidence.

func installEnvStubs(e *Engine) {
	S := e.stubs
	tg := "(*github.com/glowlabs-org/threadgroup.ThreadGroup)."
	S[tg+"Launch"] = func(e *Engine, st *State, c *callInfo, a []Value) Value {
		// the launched function is a separate root; record it
		if fv, ok := a[1].(*FuncV); ok {
			for _, al := range fv.A {
				if al.Fn != nil {
					e.spawned = append(e.spawned, shortFn(al.Fn.String()))
				}
			}
		}
		return nilIface()
	}
	S[tg+"Sleep"] = func(e *Engine, st *State, c *callInfo, a []Value) Value {
		t := FreshBool("tg.sleep")
		t.Input = true
		return t
	}
	S[tg+"IsStopped"] = func(e *Engine, st *State, c *callInfo, a []Value) Value {
		t := FreshBool("tg.stopped")
		t.Input = true
		return t
	}
	S[tg+"OnStop"] = func(e *Engine, st *State, c *callInfo, a []Value) Value { return nilIface() }
	S[tg+"AfterStop"] = func(e *Engine, st *State, c *callInfo, a []Value) Value { return nilIface() }
	S[tg+"Stop"] = func(e *Engine, st *State, c *callInfo, a []Value) Value { return nilIface() }
}

func (e *Engine) checkGuarded(st *State, l *Loc, site string) {}
