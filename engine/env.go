package main

// Environment stubs: thread group, ghost disk, misc library contracts.
// Every stub hit is listed in the evidence.

import (
	"fmt"
	"os"
	"go/types"
	"math/big"
	"strings"
)

// ---- ghost disk ----
//
// A file is st.ghost["file:<path>"] = StructV{exists Bool, len BV64, data Array(BV64->BV8)}.
// Paths are concrete strings. Every mutating call is an event; when the ghost
// "disk.crashAt" is set, only events with index < crashAt take effect (process
// crash model: completed system calls persist, a single write is atomic).

type fileState struct {
	exists *Term
	ln     *Term
	data   *Term   // SMT array representation (nil when element-wise)
	elems  *ArrayV // element-wise representation: concrete capacity, symbolic length ln
}

func (e *Engine) getFile(st *State, path string) fileState {
	if v, ok := st.ghost["file:"+path]; ok {
		s := v.(*StructV)
		f := fileState{exists: s.F[0].(*Term), ln: s.F[1].(*Term)}
		if t, ok := s.F[2].(*Term); ok {
			f.data = t
		} else {
			f.elems = s.F[2].(*ArrayV)
		}
		return f
	}
	return fileState{exists: False(), ln: BVu(0, 64), elems: &ArrayV{T: types.Typ[types.Uint8]}}
}

func (e *Engine) putFile(st *State, path string, f fileState) {
	var d Value = f.data
	if f.data == nil {
		d = f.elems
	}
	st.ghost["file:"+path] = &StructV{F: []Value{f.exists, f.ln, d}}
}

// truncated returns f with length 0 (and no stale content) under guard g.
func (f fileState) truncated(g *Term) fileState {
	nf := fileState{exists: f.exists, ln: Ite(g, BVu(0, 64), f.ln), data: f.data}
	if f.data == nil {
		if g.IsTrue() {
			nf.elems = &ArrayV{T: types.Typ[types.Uint8]}
		} else {
			es := make([]Value, len(f.elems.E))
			for k, b := range f.elems.E {
				es[k] = Ite(g, BVu(0, 8), b.(*Term))
			}
			nf.elems = &ArrayV{E: es, T: types.Typ[types.Uint8]}
		}
	} else {
		nf.data = Ite(g, ConstArr(8, BVu(0, 8)), f.data)
	}
	return nf
}

// arrayOf returns the SMT-array view of the file content.
func (f fileState) arrayOf() *Term {
	if f.data != nil {
		return f.data
	}
	arr := ConstArr(8, BVu(0, 8))
	for k, b := range f.elems.E {
		arr = Store(arr, BVu(uint64(k), 64), b.(*Term))
	}
	return arr
}

// byteAt reads one byte of the content.
func (f fileState) byteAt(idx *Term) *Term {
	if f.data != nil {
		return Select(f.data, idx)
	}
	if len(f.elems.E) == 0 {
		return BVu(0, 8)
	}
	return readPath(f.elems, []Step{{Field: -1, Idx: idx}}).(*Term)
}

// diskEvent returns the guard under which the next mutating event takes effect.
func (e *Engine) diskEvent(st *State, what string) *Term {
	cnt := e.ghostTerm(st, "disk.events", func() *Term { return BVu(0, 64) })
	st.ghost["disk.events"] = Add(cnt, BVu(1, 64))
	if c, ok := cnt.ConstInt(); ok {
		e.diskLog = append(e.diskLog, fmt.Sprintf("%d:%s", c, what))
	}
	if ca, ok := st.ghost["disk.crashAt"]; ok {
		return Ult(cnt, ca.(*Term))
	}
	return True()
}

func (e *Engine) notExistErr(st *State) *IfaceV {
	if v, ok := st.ghost["sentinel:notexist"]; ok {
		return v.(*IfaceV)
	}
	v := e.newError(st, "file does not exist").(*IfaceV)
	st.ghost["sentinel:notexist"] = v
	return v
}

func errIf(c *Term, err *IfaceV) *IfaceV {
	return mergeV(c, err, nilIface()).(*IfaceV)
}

// fileSlice returns a fresh []byte holding the file content.
func (e *Engine) fileSlice(st *State, f fileState) *SliceV {
	if f.data == nil {
		es := make([]Value, len(f.elems.E))
		copy(es, f.elems.E)
		l := e.alloc(st, &ArrayV{E: es, T: types.Typ[types.Uint8]})
		return singleSlice(l, BVu(0, 64), f.ln, f.ln)
	}
	b := &BigArrV{N: f.ln, Elem: types.Typ[types.Uint8], Leaves: []*Term{f.data}}
	l := e.alloc(st, b)
	return singleSlice(l, BVu(0, 64), f.ln, f.ln)
}

var debugFlatten = os.Getenv("GOSYM_DEBUG_FLATTEN") != ""

// flattenSlice turns a byte slice with several guarded alternatives (merged
// states whose appends reallocated differently) into one fresh element-wise
// slice with the same content; returns s itself when that is not possible.
func (e *Engine) flattenSlice(st *State, s *SliceV) *SliceV {
	if len(s.A) <= 1 {
		return s
	}
	maxN := 0
	bounds := make([]int, len(s.A))
	anyBig := false
	for i, al := range s.A {
		if al.Base == nil {
			continue
		}
		if _, big := e.bigLeaves(st, al.Base); big {
			anyBig = true
			continue
		}
		nb, ok := e.lenBound(st, al)
		if !ok || nb > 1<<16 {
			if debugFlatten {
				fmt.Fprintf(os.Stderr, "flatten: alt %d unbounded %v %d len=%s\n", i, ok, nb, al.Len)
			}
			return s
		}
		bounds[i] = nb
		if nb > maxN {
			maxN = nb
		}
	}
	if anyBig {
		// SMT-array result: each alternative contributes its content array (shifted to offset 0)
		var data *Term
		ln := BVu(0, 64)
		for i := len(s.A) - 1; i >= 0; i-- {
			al := s.A[i]
			if al.Base == nil {
				ln = Ite(al.G, BVu(0, 64), ln)
				continue
			}
			ln = Ite(al.G, al.Len, ln)
			var arr *Term
			if b, big := e.bigLeaves(st, al.Base); big {
				if len(b.Leaves) != 1 {
					return s
				}
				arr = b.Leaves[0]
				if c, isC := al.Off.ConstInt(); !isC || c != 0 {
					TF.fresh++
					j := Var(fmt.Sprintf("j!%d", TF.fresh), 64)
					arr = Lambda(j, Select(arr, Add(al.Off, j)))
				}
			} else {
				arr = ConstArr(8, BVu(0, 8))
				for k := 0; k < bounds[i]; k++ {
					K := BVu(uint64(k), 64)
					b, ok := e.sliceGet(st, al, K).(*Term)
					if !ok {
						return s
					}
					arr = Store(arr, K, b)
				}
			}
			if data == nil {
				data = arr
			} else {
				data = Ite(al.G, arr, data)
			}
		}
		if data == nil {
			return s
		}
		l := e.alloc(st, &BigArrV{N: ln, Elem: types.Typ[types.Uint8], Leaves: []*Term{data}})
		return singleSlice(l, BVu(0, 64), ln, ln)
	}
	es := make([]Value, maxN)
	for k := range es {
		es[k] = BVu(0, 8)
	}
	ln := BVu(0, 64)
	for i := len(s.A) - 1; i >= 0; i-- {
		al := s.A[i]
		if al.Base == nil {
			ln = Ite(al.G, BVu(0, 64), ln)
			continue
		}
		ln = Ite(al.G, al.Len, ln)
		for k := 0; k < bounds[i]; k++ {
			K := BVu(uint64(k), 64)
			c := And(al.G, Ult(K, al.Len))
			if c.IsFalse() {
				continue
			}
			b, ok := e.sliceGet(st, al, K).(*Term)
			if !ok {
				return s
			}
			es[k] = Ite(c, b, es[k].(*Term))
		}
	}
	l := e.alloc(st, &ArrayV{E: es, T: types.Typ[types.Uint8]})
	return singleSlice(l, BVu(0, 64), ln, ln)
}

// fileWrite writes the slice at offset at under guard g and returns the new state and the byte count.
func (e *Engine) fileWrite(st *State, f fileState, at *Term, s *SliceV, g *Term, site string) (fileState, *Term) {
	s = e.flattenSlice(st, s)
	if len(s.A) != 1 {
		panic(unsupported("file write of multi-alternative slice at " + site))
	}
	al := s.A[0]
	if al.Base == nil {
		return f, BVu(0, 64)
	}
	n := al.Len
	end := Add(at, n)
	if f.data == nil {
		// element-wise when the written extent has a concrete bound
		_, srcBig := e.bigLeaves(st, al.Base)
		nb, ok1 := e.lenBound(st, al)
		ab, ok2 := maxConst(at)
		if !srcBig && ok1 && ok2 && ab+nb <= 1<<20 {
			es := f.elems.E
			if ab+nb > len(es) {
				ne := make([]Value, ab+nb)
				copy(ne, es)
				for k := len(es); k < len(ne); k++ {
					ne[k] = BVu(0, 8)
				}
				es = ne
			} else {
				es = append([]Value(nil), es...)
			}
			atC, atIsC := at.ConstInt()
			for k := 0; k < nb; k++ {
				K := BVu(uint64(k), 64)
				b := e.sliceGet(st, al, K).(*Term)
				wg := And(g, Ult(K, n))
				if atIsC {
					es[atC+k] = Ite(wg, b, es[atC+k].(*Term))
					continue
				}
				pos := Add(at, K)
				if cands, ok := possibleConsts(pos); ok {
					for _, q := range cands {
						if q >= 0 && q < len(es) {
							es[q] = Ite(And(wg, Eq(pos, BVu(uint64(q), 64))), b, es[q].(*Term))
						}
					}
					continue
				}
				for q := range es {
					c := And(wg, Eq(pos, BVu(uint64(q), 64)))
					if !c.IsFalse() {
						es[q] = Ite(c, b, es[q].(*Term))
					}
				}
			}
			nl := Ite(And(g, Ult(f.ln, end)), end, f.ln)
			return fileState{exists: f.exists, ln: nl, elems: &ArrayV{E: es, T: types.Typ[types.Uint8]}}, n
		}
		f = fileState{exists: f.exists, ln: f.ln, data: f.arrayOf()}
	}
	nd, _ := e.writeBytesAt(st, f.data, at, s, site)
	nl := Ite(And(g, Ult(f.ln, end)), end, f.ln)
	return fileState{exists: f.exists, ln: nl, data: Ite(g, nd, f.data)}, n
}

// appendBytes returns data with the slice's bytes written at offset at.
func (e *Engine) writeBytesAt(st *State, data *Term, at *Term, s *SliceV, site string) (*Term, *Term) {
	s = e.flattenSlice(st, s)
	if len(s.A) != 1 {
		panic(unsupported("file write of multi-alternative slice at " + site))
	}
	al := s.A[0]
	if al.Base == nil {
		return data, BVu(0, 64)
	}
	if b, ok := e.bigLeaves(st, al.Base); ok {
		TF.fresh++
		j := Var(fmt.Sprintf("j!%d", TF.fresh), 64)
		rel := Sub(j, at)
		return Lambda(j, Ite(And(Ule(at, j), Ult(rel, al.Len)), Select(b.Leaves[0], Add(al.Off, rel)), Select(data, j))), al.Len
	}
	n, ok := e.lenBound(st, al)
	if !ok {
		panic(unsupported("file write of unbounded length at " + site))
	}
	_, lenC := al.Len.ConstInt()
	if n > 512 {
		// long element-wise buffers: one lambda over a materialised source array
		src := ConstArr(8, BVu(0, 8))
		for k := 0; k < n; k++ {
			src = Store(src, BVu(uint64(k), 64), e.sliceGet(st, al, BVu(uint64(k), 64)).(*Term))
		}
		TF.fresh++
		j := Var(fmt.Sprintf("j!%d", TF.fresh), 64)
		rel := Sub(j, at)
		return Lambda(j, Ite(And(Ule(at, j), Ult(rel, al.Len)), Select(src, rel), Select(data, j))), al.Len
	}
	for k := 0; k < n; k++ {
		K := BVu(uint64(k), 64)
		b := e.sliceGet(st, al, K).(*Term)
		if !lenC {
			b = Ite(Ult(K, al.Len), b, Select(data, Add(at, K)))
		}
		data = Store(data, Add(at, K), b)
	}
	return data, al.Len
}

type fileHandle struct {
	path   string
	append bool
}

func (e *Engine) newHandle(st *State, path string, app bool) *PtrV {
	l := e.alloc(st, &StructV{F: []Value{BVu(0, 64)}}) // field 0: position
	e.handles[l.Obj] = &fileHandle{path: path, append: app}
	return singlePtr(l)
}

func (e *Engine) handleOf(p Value, site string) (*fileHandle, *Loc) {
	pv := p.(*PtrV)
	if len(pv.A) != 1 || pv.A[0].L == nil {
		// guarded nil + handle (error path merged): take the non-nil alternative
		for _, a := range pv.A {
			if a.L != nil {
				if h, ok := e.handles[a.L.Obj]; ok {
					return h, a.L
				}
			}
		}
		panic(unsupported("file operation on unknown handle at " + site))
	}
	h, ok := e.handles[pv.A[0].L.Obj]
	if !ok {
		panic(unsupported("file operation on unknown handle at " + site))
	}
	return h, pv.A[0].L
}

const (
	oWRONLY = 0x1
	oRDWR   = 0x2
	oAPPEND = 0x400
	oCREATE = 0x40
	oTRUNC  = 0x200
)

func installEnvStubs(e *Engine) {
	S := e.stubs
	e.handles = map[int]*fileHandle{}
	installLibStubs(e)
	installHTTPStubs(e)
	tg := "(*github.com/glowlabs-org/threadgroup.ThreadGroup)."
	S[tg+"Launch"] = func(e *Engine, st *State, c *callInfo, a []Value) Value {
		if fv, ok := a[1].(*FuncV); ok {
			for _, al := range fv.A {
				if al.Fn != nil {
					e.spawned = append(e.spawned, shortFn(al.Fn.String()))
				}
			}
		}
		return nilIface()
	}
	S[tg+"Sleep"] = func(e *Engine, st *State, c *callInfo, a []Value) Value {
		if b, ok := st.ghost["tg.budget"]; ok {
			bt := b.(*Term)
			more := Slt(BVu(0, 64), bt)
			st.ghost["tg.budget"] = Ite(more, Sub(bt, BVu(1, 64)), bt)
			return more
		}
		t := FreshBool("tg.sleep")
		t.Input = true
		return t
	}
	S[tg+"IsStopped"] = func(e *Engine, st *State, c *callInfo, a []Value) Value {
		if _, ok := st.ghost["tg.budget"]; ok {
			return False()
		}
		t := FreshBool("tg.stopped")
		t.Input = true
		return t
	}
	S[tg+"OnStop"] = func(e *Engine, st *State, c *callInfo, a []Value) Value { return nilIface() }
	S[tg+"AfterStop"] = func(e *Engine, st *State, c *callInfo, a []Value) Value { return nilIface() }
	S[tg+"Stop"] = func(e *Engine, st *State, c *callInfo, a []Value) Value { return nilIface() }

	// ---- paths ----
	S["path/filepath.Join"] = func(e *Engine, st *State, c *callInfo, a []Value) Value {
		sl := a[0].(*SliceV)
		n, _ := sl.A[0].Len.ConstInt()
		var parts []string
		for k := 0; k < n; k++ {
			parts = append(parts, mustConcreteStr(e.sliceGet(st, sl.A[0], BVu(uint64(k), 64)), "filepath.Join element"))
		}
		return strConst(strings.Join(parts, "/"))
	}
	S["path.Join"] = S["path/filepath.Join"]
	S["verif:verifTempDir"] = func(e *Engine, st *State, c *callInfo, a []Value) Value { return strConst("/ghost") }

	// ---- files ----
	readFile := func(e *Engine, st *State, c *callInfo, a []Value) Value {
		path := mustConcreteStr(a[0], "ReadFile path")
		f := e.getFile(st, path)
		e.noteAssumption("ghost disk: files are (exists, length, bytes); reads of existing files succeed; I/O errors other than not-exist are outside the model")
		data := mergeV(f.exists, e.fileSlice(st, f), zeroValue(types.NewSlice(types.Typ[types.Uint8])))
		return &TupleV{E: []Value{data, errIf(Not(f.exists), e.notExistErr(st))}}
	}
	S["os.ReadFile"] = readFile
	S["io/ioutil.ReadFile"] = readFile
	writeFile := func(e *Engine, st *State, c *callInfo, a []Value) Value {
		path := mustConcreteStr(a[0], "WriteFile path")
		f := e.getFile(st, path)
		// event 1: open(O_CREATE|O_TRUNC); event 2: write
		g1 := e.diskEvent(st, "open-create-trunc "+path)
		f.exists = Or(f.exists, g1)
		f = f.truncated(g1)
		g2 := e.diskEvent(st, "write "+path)
		f, _ = e.fileWrite(st, f, BVu(0, 64), a[1].(*SliceV), g2, c.site)
		e.putFile(st, path, f)
		return nilIface()
	}
	S["os.WriteFile"] = writeFile
	S["io/ioutil.WriteFile"] = writeFile
	S["os.IsNotExist"] = func(e *Engine, st *State, c *callInfo, a []Value) Value {
		return eqValue(a[0], e.notExistErr(st), types.Universe.Lookup("error").Type())
	}
	S["os.Stat"] = func(e *Engine, st *State, c *callInfo, a []Value) Value {
		path := mustConcreteStr(a[0], "Stat path")
		// closed world: exactly the files written to the ghost disk exist, plus the ghost directories
		ex := e.getFile(st, path).exists
		if path == "/ghost" || strings.HasSuffix(path, "watttime_data") {
			ex = True()
		}
		return &TupleV{E: []Value{nilIface(), errIf(Not(ex), e.notExistErr(st))}}
	}
	S["os.MkdirAll"] = func(e *Engine, st *State, c *callInfo, a []Value) Value { return nilIface() }
	S["os.OpenFile"] = func(e *Engine, st *State, c *callInfo, a []Value) Value {
		path := mustConcreteStr(a[0], "OpenFile path")
		flags, ok := argTerm(a[1]).ConstInt()
		if !ok {
			panic(unsupported("OpenFile with symbolic flags"))
		}
		f := e.getFile(st, path)
		okc := f.exists
		if flags&oCREATE != 0 {
			g := e.diskEvent(st, "open-create "+path)
			f.exists = Or(f.exists, g)
			okc = True()
		}
		if flags&oTRUNC != 0 {
			g := e.diskEvent(st, "truncate "+path)
			f = f.truncated(g)
		}
		e.putFile(st, path, f)
		h := e.newHandle(st, path, flags&oAPPEND != 0)
		hv := mergeV(okc, h, &PtrV{A: []PtrAlt{{G: True()}}})
		return &TupleV{E: []Value{hv, errIf(Not(okc), e.notExistErr(st))}}
	}
	S["os.Create"] = func(e *Engine, st *State, c *callInfo, a []Value) Value {
		path := mustConcreteStr(a[0], "Create path")
		f := e.getFile(st, path)
		g := e.diskEvent(st, "create-trunc "+path)
		f.exists = Or(f.exists, g)
		f = f.truncated(g)
		e.putFile(st, path, f)
		return &TupleV{E: []Value{e.newHandle(st, path, false), nilIface()}}
	}
	S["os.Open"] = func(e *Engine, st *State, c *callInfo, a []Value) Value {
		path := mustConcreteStr(a[0], "Open path")
		f := e.getFile(st, path)
		h := e.newHandle(st, path, false)
		e.readLog = append(e.readLog, path)
		hv := mergeV(f.exists, h, &PtrV{A: []PtrAlt{{G: True()}}})
		return &TupleV{E: []Value{hv, errIf(Not(f.exists), e.notExistErr(st))}}
	}
	S["(*os.File).Write"] = func(e *Engine, st *State, c *callInfo, a []Value) Value {
		h, loc := e.handleOf(a[0], c.site)
		f := e.getFile(st, h.path)
		g := e.diskEvent(st, "write "+h.path)
		pos := e.loadLoc(st, extendLoc(loc, Step{Field: 0})).(*Term)
		at := pos
		if h.append {
			at = f.ln
		}
		nf, n := e.fileWrite(st, f, at, a[1].(*SliceV), g, c.site)
		e.putFile(st, h.path, nf)
		e.storeLoc(st, extendLoc(loc, Step{Field: 0}), Add(at, n), True())
		return &TupleV{E: []Value{n, nilIface()}}
	}
	S["(*os.File).WriteAt"] = func(e *Engine, st *State, c *callInfo, a []Value) Value {
		h, _ := e.handleOf(a[0], c.site)
		f := e.getFile(st, h.path)
		g := e.diskEvent(st, "pwrite "+h.path)
		at := argTerm(a[2])
		if f.data == nil {
			if _, ok := maxConst(at); !ok {
				f = fileState{exists: f.exists, ln: f.ln, data: f.arrayOf()}
			}
		}
		if f.data != nil {
			// bytes between the old end and the write offset read as zero
			TF.fresh++
			j := Var(fmt.Sprintf("j!%d", TF.fresh), 64)
			f.data = Lambda(j, Ite(And(Ule(f.ln, j), Ult(j, at)), BVu(0, 8), Select(f.data, j)))
		}
		nf, n := e.fileWrite(st, f, at, a[1].(*SliceV), g, c.site)
		e.putFile(st, h.path, nf)
		return &TupleV{E: []Value{n, nilIface()}}
	}
	S["(*os.File).ReadAt"] = func(e *Engine, st *State, c *callInfo, a []Value) Value {
		h, _ := e.handleOf(a[0], c.site)
		f := e.getFile(st, h.path)
		dst := a[1].(*SliceV)
		at := argTerm(a[2])
		if len(dst.A) != 1 {
			panic(unsupported("ReadAt into multi-alternative slice"))
		}
		d := dst.A[0]
		n, ok := e.lenBound(st, d)
		if !ok {
			panic(unsupported("ReadAt into unbounded buffer"))
		}
		// available = max(0, len - at) (at is a non-negative int64 in the callers)
		avail := Ite(Ult(at, f.ln), Sub(f.ln, at), BVu(0, 64))
		got := Ite(Ult(avail, d.Len), avail, d.Len)
		for k := 0; k < n; k++ {
			K := BVu(uint64(k), 64)
			e.sliceSet(st, d, K, f.byteAt(Add(at, K)), Ult(K, got))
		}
		eof := e.eofErr(st)
		return &TupleV{E: []Value{got, errIf(Ult(got, d.Len), eof)}}
	}
	S["(*os.File).Read"] = func(e *Engine, st *State, c *callInfo, a []Value) Value {
		h, loc := e.handleOf(a[0], c.site)
		f := e.getFile(st, h.path)
		d := a[1].(*SliceV).A[0]
		pos := e.loadLoc(st, extendLoc(loc, Step{Field: 0})).(*Term)
		n, ok := e.lenBound(st, d)
		if !ok {
			panic(unsupported("Read into unbounded buffer"))
		}
		avail := Ite(Ult(pos, f.ln), Sub(f.ln, pos), BVu(0, 64))
		got := Ite(Ult(avail, d.Len), avail, d.Len)
		for k := 0; k < n; k++ {
			K := BVu(uint64(k), 64)
			e.sliceSet(st, d, K, f.byteAt(Add(pos, K)), Ult(K, got))
		}
		e.storeLoc(st, extendLoc(loc, Step{Field: 0}), Add(pos, got), True())
		return &TupleV{E: []Value{got, errIf(And(Eq(got, BVu(0, 64)), Not(Eq(d.Len, BVu(0, 64)))), e.eofErr(st))}}
	}
	S["(*os.File).Close"] = func(e *Engine, st *State, c *callInfo, a []Value) Value { return nilIface() }
	S["(*os.File).Stat"] = func(e *Engine, st *State, c *callInfo, a []Value) Value {
		return &TupleV{E: []Value{nilIface(), nilIface()}}
	}
}

// installLibStubs: strconv / csv / ghost registry / tokens
// bufferAppend models the write side of bytes.Buffer: buf = append(buf, data...)
// into a fresh backing array (a Buffer's storage is private to it, so always
// reallocating is unobservable unless a caller keeps Bytes() across a later
// write, which the repository never does). The read side (Next, Read, Bytes,
// Len) is interpreted from the library's own SSA.
func (e *Engine) bufferAppend(st *State, recv Value, data Value, site string) *Term {
	pv := recv.(*PtrV)
	alts := e.nonNil(st, pv, site, "bytes.Buffer")
	if len(alts) != 1 {
		panic(unsupported("bytes.Buffer write through multi-alternative pointer at " + site))
	}
	bl := extendLoc(alts[0].L, Step{Field: 0})
	buf := e.flattenSlice(st, e.loadLoc(st, bl).(*SliceV))
	forced := &SliceV{}
	for _, a := range buf.A {
		a.Cap = a.Len // no spare capacity: append takes the reallocation path only
		forced.A = append(forced.A, a)
	}
	var n *Term
	for _, v := range e.views(st, data, site) {
		if n == nil {
			n = v.len
		} else {
			n = Ite(v.g, v.len, n)
		}
	}
	if n == nil {
		n = BVu(0, 64)
	}
	out := e.appendBuiltin(st, forced, data, types.Typ[types.Uint8], site)
	e.storeLoc(st, bl, e.flattenSlice(st, out), True())
	return n
}

func installLibStubs(e *Engine) {
	S := e.stubs
	S["(*bytes.Buffer).Write"] = func(e *Engine, st *State, c *callInfo, a []Value) Value {
		n := e.bufferAppend(st, a[0], a[1], c.site)
		return &TupleV{E: []Value{n, nilIface()}}
	}
	S["(*bytes.Buffer).WriteString"] = func(e *Engine, st *State, c *callInfo, a []Value) Value {
		n := e.bufferAppend(st, a[0], a[1], c.site)
		return &TupleV{E: []Value{n, nilIface()}}
	}
	S["(*bytes.Buffer).WriteByte"] = func(e *Engine, st *State, c *callInfo, a []Value) Value {
		l := e.alloc(st, &ArrayV{E: []Value{a[1]}, T: types.Typ[types.Uint8]})
		e.bufferAppend(st, a[0], singleSlice(l, BVu(0, 64), BVu(1, 64), BVu(1, 64)), c.site)
		return nilIface()
	}
	S["verif:verifGhostSet"] = func(e *Engine, st *State, c *callInfo, a []Value) Value {
		iv := a[1].(*IfaceV)
		st.ghost["user:"+mustConcreteStr(a[0], "verifGhostSet key")] = iv.A[0].V
		return nil
	}
	S["verif:verifTgBudget"] = func(e *Engine, st *State, c *callInfo, a []Value) Value {
		st.ghost["tg.budget"] = argTerm(a[0])
		return nil
	}
	// tokens: strings whose strconv reading is declared by the harness
	S["verif:verifIntToken"] = func(e *Engine, st *State, c *callInfo, a []Value) Value {
		name := mustConcreteStr(a[0], "verifIntToken")
		s := &StrV{B: make([]*Term, 2), Len: InputVar(name+".len", 64)}
		for i := range s.B {
			s.B[i] = Fresh(name+".b", 8)
		}
		st.assume(And(Ule(BVu(1, 64), s.Len), Ule(s.Len, BVu(2, 64))))
		ok := InputBool(name + ".ok")
		s.Tok = &tokInfo{IntOK: ok, IntVal: InputVar(name+".val", 64), FloatOK: FreshBool(name + ".fok"), FloatBits: Fresh(name+".fbits", 64)}
		e.noteAssumption("numeric tokens: a field is an opaque non-empty string; strconv.ParseInt/ParseFloat return the declared value or an error (strconv's own text semantics are a contract, not encoded)")
		return s
	}
	S["verif:verifIntTokenOf"] = func(e *Engine, st *State, c *callInfo, a []Value) Value {
		name := mustConcreteStr(a[0], "verifIntTokenOf")
		s := &StrV{B: make([]*Term, 2), Len: InputVar(name+".len", 64)}
		for i := range s.B {
			s.B[i] = Fresh(name+".b", 8)
		}
		st.assume(And(Ule(BVu(1, 64), s.Len), Ule(s.Len, BVu(2, 64))))
		s.Tok = &tokInfo{IntOK: InputBool(name + ".ok"), IntVal: argTerm(a[1]), FloatOK: FreshBool(name + ".fok"), FloatBits: Fresh(name+".fbits", 64)}
		s.Tok.IntVal = Ite(s.Tok.IntOK, s.Tok.IntVal, BVu(0, 64))
		e.noteAssumption("numeric tokens: a field is an opaque non-empty string; strconv.ParseInt/ParseFloat return the declared value or an error (strconv's own text semantics are a contract, not encoded)")
		return s
	}
	S["verif:verifFloatTokenOf"] = func(e *Engine, st *State, c *callInfo, a []Value) Value {
		name := mustConcreteStr(a[0], "verifFloatTokenOf")
		s := &StrV{B: make([]*Term, 2), Len: InputVar(name+".len", 64)}
		for i := range s.B {
			s.B[i] = Fresh(name+".b", 8)
		}
		st.assume(And(Ule(BVu(1, 64), s.Len), Ule(s.Len, BVu(2, 64))))
		s.Tok = &tokInfo{FloatOK: InputBool(name + ".ok"), FloatBits: argTerm(a[1]), IntOK: FreshBool(name + ".iok"), IntVal: Fresh(name+".ival", 64)}
		st.assume(Or(s.Tok.FloatOK, Eq(s.Tok.FloatBits, BVu(0, 64)))) // (0, err) contract: the declared value of an unparseable token is 0
		e.noteAssumption("numeric tokens: a field is an opaque non-empty string; strconv.ParseInt/ParseFloat return the declared value or an error (strconv's own text semantics are a contract, not encoded)")
		return s
	}
	S["verif:verifFloatToken"] = func(e *Engine, st *State, c *callInfo, a []Value) Value {
		name := mustConcreteStr(a[0], "verifFloatToken")
		s := &StrV{B: make([]*Term, 2), Len: InputVar(name+".len", 64)}
		for i := range s.B {
			s.B[i] = Fresh(name+".b", 8)
		}
		st.assume(And(Ule(BVu(1, 64), s.Len), Ule(s.Len, BVu(2, 64))))
		ok := InputBool(name + ".ok")
		s.Tok = &tokInfo{FloatOK: ok, FloatBits: InputVar(name+".val", 64), IntOK: FreshBool(name + ".iok"), IntVal: Fresh(name+".ival", 64)}
		e.noteAssumption("numeric tokens: a field is an opaque non-empty string; strconv.ParseInt/ParseFloat return the declared value or an error (strconv's own text semantics are a contract, not encoded)")
		return s
	}
	parseInt := func(e *Engine, st *State, c *callInfo, a []Value) Value {
		s := a[0].(*StrV)
		var ok, val *Term
		if s.Tok != nil {
			ok, val = s.Tok.IntOK, s.Tok.IntVal
		} else if cs, isC := s.concrete(); isC {
			var n int64
			_, err := fmt.Sscanf(cs, "%d", &n)
			ok, val = Bool(err == nil && fmt.Sprint(n) == cs), BVi(n, 64)
		} else {
			ok, val = FreshBool("parseint.ok"), Fresh("parseint.val", 64)
		}
		bits := 64
		if len(a) > 2 {
			if b, isC := argTerm(a[2]).ConstInt(); isC && b > 0 {
				bits = b
			}
		}
		if bits < 64 {
			if c.name == "strconv.ParseUint" {
				ok = And(ok, Ult(val, BV(new(big.Int).Lsh(bigOne, uint(bits)), 64)))
			} else {
				lim := BV(new(big.Int).Lsh(bigOne, uint(bits-1)), 64)
				ok = And(ok, Slt(val, lim), Sle(Neg(lim), val))
			}
		}
		if s.Tok == nil {
			val = Ite(ok, val, BVu(0, 64))
		}
		return &TupleV{E: []Value{val, errIf(Not(ok), e.newError(st, "strconv: parse error").(*IfaceV))}}
	}
	S["strconv.ParseInt"] = parseInt
	S["strconv.ParseUint"] = parseInt
	S["strconv.ParseFloat"] = func(e *Engine, st *State, c *callInfo, a []Value) Value {
		s := a[0].(*StrV)
		var ok, val *Term
		if s.Tok != nil {
			ok, val = s.Tok.FloatOK, s.Tok.FloatBits
		} else {
			ok, val = FreshBool("parsefloat.ok"), Fresh("parsefloat.val", 64)
			val = Ite(ok, val, BVu(0, 64))
		}
		return &TupleV{E: []Value{val, errIf(Not(ok), e.newError(st, "strconv: parse error").(*IfaceV))}}
	}
	S["strconv.Itoa"] = func(e *Engine, st *State, c *callInfo, a []Value) Value { return strConst("<itoa>") }
	S["strconv.FormatFloat"] = func(e *Engine, st *State, c *callInfo, a []Value) Value { return strConst("<float>") }

	// encoding/csv: records come from the ghost "csv" (a [][]string registered by the harness)
	S["encoding/csv.NewReader"] = func(e *Engine, st *State, c *callInfo, a []Value) Value {
		st.ghost["csv.pos"] = BVu(0, 64)
		return singlePtr(e.alloc(st, &StructV{F: []Value{BVu(0, 64)}}))
	}
	S["(*encoding/csv.Reader).Read"] = func(e *Engine, st *State, c *callInfo, a []Value) Value {
		recs, ok := st.ghost["user:csv"].(*SliceV)
		if !ok || len(recs.A) != 1 {
			panic(unsupported("csv.Reader.Read without registered records (verifGhostSet(\"csv\", [][]string))"))
		}
		al := recs.A[0]
		n, isC := al.Len.ConstInt()
		pos, posC := st.ghost["csv.pos"].(*Term).ConstInt()
		if !isC || !posC {
			panic(unsupported("csv stub needs a concrete number of records"))
		}
		e.noteAssumption("encoding/csv: Read returns the registered records in order, io.EOF after the last, and ErrFieldCount (with the record) when a record's field count differs from the first record's (FieldsPerRecord = 0); every record has >= 1 field; csv's tokenisation (quotes, CRLF) is a contract, not encoded")
		nilRec := zeroValue(types.NewSlice(types.Typ[types.String]))
		if pos >= n {
			return &TupleV{E: []Value{nilRec, e.eofErr(st)}}
		}
		st.ghost["csv.pos"] = BVu(uint64(pos+1), 64)
		rec := e.sliceGet(st, al, BVu(uint64(pos), 64)).(*SliceV)
		first := e.sliceGet(st, al, BVu(0, 64)).(*SliceV)
		same := Eq(rec.A[0].Len, first.A[0].Len)
		return &TupleV{E: []Value{rec, errIf(Not(same), e.newError(st, "csv: wrong number of fields").(*IfaceV))}}
	}
	S["verif:verifFileHavoc"] = func(e *Engine, st *State, c *callInfo, a []Value) Value {
		path := mustConcreteStr(a[0], "verifFileHavoc path")
		name := mustConcreteStr(a[1], "verifFileHavoc name")
		mx, _ := argTerm(a[2]).ConstInt()
		arr := ArrVar(name, 8)
		arr.Input = true
		ln := InputVar(name+".len", 64)
		st.assume(Ule(ln, BVu(uint64(mx), 64)))
		varBounds[name+".len"] = mx
		e.bounds["len(file "+name+")"] = fmt.Sprintf("0..%d bytes, arbitrary content", mx)
		e.putFile(st, path, fileState{exists: True(), ln: ln, data: arr})
		return nil
	}
	S["verif:verifCrashAfter"] = func(e *Engine, st *State, c *callInfo, a []Value) Value {
		cnt := e.ghostTerm(st, "disk.events", func() *Term { return BVu(0, 64) })
		st.ghost["disk.crashAt"] = Add(cnt, Resize(argTerm(a[0]), 64, true))
		e.noteAssumption("crash model: the process dies after a chosen number of completed disk system calls (open/create/truncate and each write are separate events; a single write is atomic; nothing is reordered or torn); memory is discarded and the loaders run on what reached the disk")
		return nil
	}
	S["verif:verifCrashEnd"] = func(e *Engine, st *State, c *callInfo, a []Value) Value {
		delete(st.ghost, "disk.crashAt")
		return nil
	}
	S["verif:verifDiskEvents"] = func(e *Engine, st *State, c *callInfo, a []Value) Value {
		return e.ghostTerm(st, "disk.events", func() *Term { return BVu(0, 64) })
	}
	S["verif:verifWatchLocks"] = func(e *Engine, st *State, c *callInfo, a []Value) Value {
		e.watchLocks = argTerm(a[0]).IsTrue()
		return nil
	}
	S["verif:verifOnLock"] = func(e *Engine, st *State, c *callInfo, a []Value) Value {
		st.ghost["user:onlock"] = a[0]
		return nil
	}
	S["verif:verifFileAbsent"] = func(e *Engine, st *State, c *callInfo, a []Value) Value {
		path := mustConcreteStr(a[0], "verifFileAbsent path")
		e.putFile(st, path, fileState{exists: False(), ln: BVu(0, 64), elems: &ArrayV{T: types.Typ[types.Uint8]}})
		return nil
	}
}

// installHTTPStubs: encoding/json and net/http contracts used by the handlers.
func installHTTPStubs(e *Engine) {
	S := e.stubs
	S["encoding/json.NewDecoder"] = func(e *Engine, st *State, c *callInfo, a []Value) Value {
		return singlePtr(e.alloc(st, &StructV{F: []Value{a[0]}}))
	}
	S["(*encoding/json.Decoder).Decode"] = func(e *Engine, st *State, c *callInfo, a []Value) Value {
		// the request body decodes to the value registered by the harness, or fails
		src, ok := st.ghost["user:json.body"]
		fails := FreshBool("json.decode.fails")
		fails.Input = true
		if _, wf := st.ghost["user:json.wellformed"]; wf {
			// the harness sends the JSON rendering of a value of the target type: decoding succeeds
			fails = False()
		}
		e.noteAssumption("encoding/json: Decode either fails (target untouched) or stores an arbitrary value of the target type chosen by the harness; JSON text semantics are a contract, not encoded")
		if !ok {
			return e.newError(st, "json: decode error")
		}
		dst := a[1].(*IfaceV).A[0].V.(*PtrV)
		val := e.load(st, src.(*PtrV), c.site)
		old := e.load(st, dst, c.site)
		e.store(st, dst, mergeV(fails, old, val), c.site)
		return errIf(fails, e.newError(st, "json: decode error").(*IfaceV))
	}
	S["encoding/json.NewEncoder"] = func(e *Engine, st *State, c *callInfo, a []Value) Value {
		return singlePtr(e.alloc(st, &StructV{F: []Value{a[0]}}))
	}
	S["(*encoding/json.Encoder).Encode"] = func(e *Engine, st *State, c *callInfo, a []Value) Value {
		st.ghost["user:json.encoded"] = a[1].(*IfaceV).A[0].V
		cnt := e.ghostTerm(st, "json.encodes", func() *Term { return BVu(0, 64) })
		st.ghost["json.encodes"] = Add(cnt, BVu(1, 64))
		e.noteAssumption("encoding/json: Encode hands the value to the client unchanged and succeeds (the rendering itself is outside the model)")
		return nilIface()
	}
	S["encoding/json.Marshal"] = func(e *Engine, st *State, c *callInfo, a []Value) Value {
		es := make([]Value, 8)
		for i := range es {
			es[i] = Fresh("json.bytes", 8)
		}
		l := e.alloc(st, &ArrayV{E: es, T: types.Typ[types.Uint8]})
		return &TupleV{E: []Value{singleSlice(l, BVu(0, 64), BVu(8, 64), BVu(8, 64)), nilIface()}}
	}
	S["(*net/url.URL).Query"] = func(e *Engine, st *State, c *callInfo, a []Value) Value {
		if v, ok := st.ghost["user:query"]; ok {
			return v
		}
		return zeroValue(types.NewMap(types.Typ[types.String], types.NewSlice(types.Typ[types.String])))
	}
	S["encoding/hex.DecodeString"] = func(e *Engine, st *State, c *callInfo, a []Value) Value {
		if v, ok := st.ghost["user:hex"]; ok {
			fails := FreshBool("hex.fails")
			fails.Input = true
			return &TupleV{E: []Value{v, errIf(fails, e.newError(st, "hex: invalid").(*IfaceV))}}
		}
		return &TupleV{E: []Value{zeroValue(types.NewSlice(types.Typ[types.Uint8])), e.newError(st, "hex: invalid")}}
	}
	S["verif:verifJSONEncoded"] = func(e *Engine, st *State, c *callInfo, a []Value) Value {
		// copies the last encoded value into *dst; reports whether there was one
		v, ok := st.ghost["user:json.encoded"]
		if !ok {
			return False()
		}
		dst := a[0].(*IfaceV).A[0].V.(*PtrV)
		e.store(st, dst, v, c.site)
		return True()
	}
}

func (e *Engine) eofErr(st *State) *IfaceV {
	g := e.prog.ImportedPackage("io").Var("EOF")
	id := e.globalObj(st, g)
	return st.heap[id].(*IfaceV)
}

// guardedFields: fields of the server structs that the code base's convention
// ("every field not prefixed static is protected by mu") puts under a mutex.
var guardedFields = map[string]map[string]bool{
	"GCAServer": {"equipment": true, "equipmentShortID": true, "equipmentBans": true, "equipmentImpactRate": true,
		"equipmentMigrations": true, "equipmentReports": true, "equipmentReportsOffset": true, "equipmentStatsHistory": true,
		"equipmentHistoryOffset": true, "recentEquipmentAuths": true, "recentReports": true, "gcaPubkey": true, "gcaPubkeyAvailable": true},
	"AuthorizedServers": {"servers": true},
}

// checkGuarded: an access to a guarded field must happen while the struct's mu is held.
func (e *Engine) checkGuarded(st *State, l *Loc, site string) {
	t, ok := e.objTypes[l.Obj]
	if !ok || len(l.Path) == 0 {
		return
	}
	root, ok := st.heap[l.Obj]
	if !ok {
		return
	}
	cur := t
	var v Value = root
	for depth := 0; depth < len(l.Path) && depth < 2; depth++ {
		stp := l.Path[depth]
		if stp.Field < 0 {
			return
		}
		named, isNamed := cur.(*types.Named)
		stt, isStruct := cur.Underlying().(*types.Struct)
		if !isStruct {
			return
		}
		sv, isSV := v.(*StructV)
		if !isSV {
			return
		}
		fname := stt.Field(stp.Field).Name()
		if isNamed {
			if g := guardedFields[named.Obj().Name()]; g != nil && g[fname] {
				// find mu
				for i := 0; i < stt.NumFields(); i++ {
					if stt.Field(i).Name() == "mu" {
						held := sv.F[i].(*StructV).F[0].(*Term)
						e.oblige(st, "lock", "guarded-field-"+fname+"-accessed-under-mu@"+site, site, Eq(held, BVu(1, 32)))
						return
					}
				}
			}
		}
		cur = stt.Field(stp.Field).Type()
		v = sv.F[stp.Field]
	}
}
