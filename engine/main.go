package main

import (
	"encoding/json"
	"flag"
	"fmt"
	"go/types"
	"os"
	"path/filepath"
	"regexp"
	"runtime/debug"
	"runtime/pprof"
	"sort"
	"strings"
	"sync"
	"time"

	"golang.org/x/tools/go/packages"
	"golang.org/x/tools/go/ssa"
	"golang.org/x/tools/go/ssa/ssautil"
)

type HarnessResult struct {
	Name        string            `json:"name"`
	Pkg         string            `json:"pkg"`
	Tags        string            `json:"tags"`
	Cases       int               `json:"cases"`
	Aborted     string            `json:"aborted,omitempty"`
	Functions   []string          `json:"functions_encoded"`
	Stubs       []string          `json:"stubs"`
	Loops       map[string]string `json:"loops"`
	Bounds      map[string]string `json:"bounds"`
	Assumptions []string          `json:"assumptions"`
	Spawned     []string          `json:"spawned,omitempty"`
	Paths       int               `json:"paths"`
	Merges      int               `json:"merges"`
	ExecMs      int64             `json:"exec_ms"`
	Obligations []*Obligation     `json:"obligations"`
}

type RunOutput struct {
	Repo      string           `json:"repo"`
	Tags      string           `json:"tags"`
	LoadMs    int64            `json:"load_ms"`
	Harnesses []*HarnessResult `json:"harnesses"`
	Solver    map[string]int   `json:"solver_queries"`
	SolverMs  int64            `json:"solver_ms"`
	WallMs    int64            `json:"wall_ms"`
}

func main() {
	repo := flag.String("repo", "/repo", "repository root")
	pkgPat := flag.String("pkg", "./glow", "package pattern (relative to repo)")
	tags := flag.String("tags", "verif", "build tags")
	overlayDir := flag.String("overlay-dir", "", "directory with harness files mirrored into the package dir")
	harnessRe := flag.String("harness", "^verifH_", "regexp of harness function names")
	out := flag.String("out", "", "output json")
	workers := flag.Int("workers", 8, "solver workers")
	timeout := flag.Int("timeout-ms", 60000, "per-query solver timeout")
	unwind := flag.Int("unwind", 8, "default unwinding bound for loops with symbolic conditions")
	trace := flag.Bool("trace", false, "trace instructions")
	dumpDir := flag.String("dump-smt", "", "directory to dump failing/unknown queries")
	feasMs := flag.Int("feasibility-timeout-ms", 8000, "timeout of the branch-pruning queries (unknown = keep the branch)")
	tier := flag.String("tier", "quick", "quick|thorough (value of the verifTier intrinsic)")
	second := flag.String("second-solver", "", "re-check every obligation with this solver (z3-new|cvc5) and diff")
	flag.BoolVar(&AcceptAbstractSat, "accept-abstract-sat", false, "accept sat answers of abstracted queries as candidate counterexamples (to be confirmed by native replay)")
	fixCase := flag.String("fix-case", "", "name=val,... pins verifCase values (debugging)")
	cpuprof := flag.String("cpuprofile", "", "write cpu profile")
	flag.IntVar(&SolveBudgetS, "solve-budget-s", SolveBudgetS, "wall-clock budget for discharging the obligations of one harness; what is left is reported unknown (0 = unlimited)")
	flag.IntVar(&AbstractGraceS, "abstract-grace-s", AbstractGraceS, "seconds to wait for a precise verdict after an abstracted query answered sat")
	flag.IntVar(&TermBudget, "term-budget", TermBudget, "abort a harness run that builds more than this many terms (0 = unlimited)")
	flag.Parse()
	if *cpuprof != "" {
		f, _ := os.Create(*cpuprof)
		pprof.StartCPUProfile(f)
		defer pprof.StopCPUProfile()
		go func() {
			time.Sleep(90 * time.Second)
			pprof.StopCPUProfile()
			f.Close()
			os.Exit(9)
		}()
	}

	start := time.Now()
	cfg := &packages.Config{
		Mode:       packages.NeedName | packages.NeedFiles | packages.NeedCompiledGoFiles | packages.NeedImports | packages.NeedDeps | packages.NeedTypes | packages.NeedSyntax | packages.NeedTypesInfo | packages.NeedTypesSizes | packages.NeedModule,
		Dir:        *repo,
		BuildFlags: []string{"-tags=" + *tags},
		Env:        append(os.Environ(), "GOFLAGS=-mod=mod", "GOPROXY=off", "GOSUMDB=off", "GOTOOLCHAIN=local"),
		Overlay:    map[string][]byte{},
	}
	if *overlayDir != "" {
		rel := strings.TrimPrefix(*pkgPat, "./")
		files, _ := filepath.Glob(filepath.Join(*overlayDir, rel, "*.go"))
		for _, f := range files {
			if strings.HasSuffix(f, "_test.go") {
				continue
			}
			b, err := os.ReadFile(f)
			if err != nil {
				fatalf("read overlay: %v", err)
			}
			cfg.Overlay[filepath.Join(*repo, rel, filepath.Base(f))] = b
		}
	}
	pkgs, err := packages.Load(cfg, *pkgPat)
	if err != nil {
		fatalf("load: %v", err)
	}
	nerr := 0
	packages.Visit(pkgs, nil, func(p *packages.Package) {
		for _, e := range p.Errors {
			fmt.Fprintf(os.Stderr, "load error: %v\n", e)
			nerr++
		}
	})
	if nerr > 0 {
		fatalf("package load failed (%d errors): harness does not compile against the current tree", nerr)
	}
	prog, _ := ssautil.AllPackages(pkgs, ssa.InstantiateGenerics)
	prog.Build()
	loadMs := time.Since(start).Milliseconds()

	mainPkg := prog.Package(pkgs[0].Types)
	re := regexp.MustCompile(*harnessRe)
	var names []string
	for name, m := range mainPkg.Members {
		if _, ok := m.(*ssa.Function); ok && re.MatchString(name) && strings.HasPrefix(name, "verifH_") {
			names = append(names, name)
		}
	}
	sort.Strings(names)
	if len(names) == 0 {
		fatalf("no harness matches %s in %s", *harnessRe, *pkgPat)
	}

	pool := newPool()
	ro := &RunOutput{Repo: *repo, Tags: *tags, LoadMs: loadMs}
	for _, name := range names {
		hr := runHarness(prog, pkgs[0].Fset, mainPkg, name, pool, *unwind, *trace, *tier, *feasMs, *fixCase)
		hr.Tags = *tags
		discharge(pool, hr, *workers, *timeout, *dumpDir, *second)
		ro.Harnesses = append(ro.Harnesses, hr)
		nOK, nBad, nUnk := 0, 0, 0
		for _, o := range hr.Obligations {
			switch {
			case o.OK:
				nOK++
			case o.Verdict == "unknown":
				nUnk++
			default:
				nBad++
			}
		}
		fmt.Fprintf(os.Stderr, "%-40s cases=%d obligations=%d ok=%d failed=%d unknown=%d exec=%dms %s\n", name, hr.Cases, len(hr.Obligations), nOK, nBad, nUnk, hr.ExecMs, hr.Aborted)
	}
	pool.closeAll()
	ro.Solver = pool.stats.byKind
	ro.SolverMs = pool.stats.ms
	ro.WallMs = time.Since(start).Milliseconds()
	if *out != "" {
		b, _ := json.MarshalIndent(ro, "", " ")
		if err := os.WriteFile(*out, b, 0644); err != nil {
			fatalf("write: %v", err)
		}
	}
}

func fatalf(f string, a ...interface{}) {
	fmt.Fprintf(os.Stderr, "gosym: "+f+"\n", a...)
	os.Exit(3)
}

func newEngine(prog *ssa.Program, fset interface{}, pool *SolverPool) *Engine {
	return nil
}

func runHarness(prog *ssa.Program, fset0 interface{}, pkg *ssa.Package, name string, pool *SolverPool, unwind int, trace bool, tier string, feasMs int, fixCase string) *HarnessResult {
	hr := &HarnessResult{Name: name, Pkg: pkg.Pkg.Path(), Loops: map[string]string{}, Bounds: map[string]string{}}
	start := time.Now()
	e := &Engine{
		prog: prog, fset: prog.Fset, pool: pool, repoPrefix: "github.com/glowlabs-org/gca-backend",
		oblSeq: map[string]int{}, pd: map[*ssa.Function]*pdInfo{}, stubs: map[string]StubFn{},
		funcsSeen: map[string]bool{}, stubsSeen: map[string]bool{}, loopsSeen: map[string]string{},
		globals: map[*ssa.Global]int{}, harness: name, unwind: unwind, maxVisits: 20000,
		caseVals: map[string]int{}, caseRanges: map[string][2]int{}, bounds: map[string]string{},
		trace: trace, initHeap: map[int]Value{}, assumptions: map[string]bool{},
		redirects: map[string]*ssa.Function{}, mainPkg: pkg, enabledModels: map[string]bool{}, objTypes: map[int]types.Type{}, tier: tier, feasTimeout: feasMs,
	}
	e.installStubs()
	e.fixedCases = map[string]int{}
	for _, kv := range strings.Split(fixCase, ",") {
		if p := strings.SplitN(kv, "=", 2); len(p) == 2 {
			var v int
			fmt.Sscanf(p[1], "%d", &v)
			e.fixedCases[p[0]] = v
		}
	}
	fn := pkg.Func(name)

	runOnce := func() (aborted string) {
		defer func() {
			if r := recover(); r != nil {
				if u, ok := r.(unsupportedErr); ok {
					aborted = "unsupported: " + u.msg
					return
				}
				aborted = fmt.Sprintf("engine error: %v\n%s", r, debug.Stack())
			}
		}()
		e.watchLocks, e.inHook = false, false
		TF.caseStart = TF.next
		st := &State{heap: map[int]Value{}, ghost: map[string]Value{}}
		// package initialisers of the repo packages reachable from this package
		e.runInits(st, pkg)
		fr := e.newFrame(fn, nil, nil)
		st.frames = []*Frame{fr}
		outs := e.runUntil(st, marker{fr.id, nil})
		_ = outs
		return ""
	}

	// enumerate verifCase combinations (odometer); ranges are discovered on the first run
	for {
		var lbl []string
		for _, n := range e.caseOrder {
			lbl = append(lbl, fmt.Sprintf("%s=%d", n, e.caseVals[n]))
		}
		e.caseLabel = strings.Join(lbl, ",")
		hr.Cases++
		oblsBefore := len(e.obls)
		if ab := runOnce(); ab != "" {
			hr.Aborted = ab
			if strings.Contains(ab, "state explosion") && len(e.obls) > oblsBefore {
				// the partial obligations of an exploded run carry huge terms and decide nothing
				e.obls = e.obls[:oblsBefore]
			}
			if e.caseLabel != "" {
				hr.Aborted += " [case " + e.caseLabel + "]"
			}
			break
		}
		// recompute label after first discovery
		if hr.Cases == 1 && len(e.caseOrder) > 0 {
			var l2 []string
			for _, n := range e.caseOrder {
				l2 = append(l2, fmt.Sprintf("%s=%d", n, e.caseVals[n]))
			}
			for _, o := range e.obls {
				if o.Case == "" {
					o.Case = strings.Join(l2, ",")
				}
			}
		}
		// advance odometer
		adv := false
		for i := len(e.caseOrder) - 1; i >= 0; i-- {
			n := e.caseOrder[i]
			if e.caseVals[n] < e.caseRanges[n][1] {
				e.caseVals[n]++
				adv = true
				break
			}
			e.caseVals[n] = e.caseRanges[n][0]
		}
		if !adv {
			break
		}
	}
	for _, n := range e.caseOrder {
		hr.Bounds["case "+n] = fmt.Sprintf("%d..%d (every value executed separately)", e.caseRanges[n][0], e.caseRanges[n][1])
	}
	for i, o := range e.obls {
		if o.Case != "" {
			o.ID = o.ID + "[" + o.Case + "]"
		}
		_ = i
	}
	hr.Obligations = e.obls
	hr.Functions = sortedKeys(e.funcsSeen)
	hr.Stubs = sortedKeys(e.stubsSeen)
	hr.Loops = e.loopsSeen
	for k, v := range e.bounds {
		hr.Bounds[k] = v
	}
	hr.Assumptions = sortedKeys(e.assumptions)
	hr.Spawned = e.spawned
	hr.Paths = e.paths
	hr.Merges = e.merges
	hr.ExecMs = time.Since(start).Milliseconds()
	if os.Getenv("GOSYM_OBL_STATS") != "" {
		cnt := map[string]int{}
		for _, o := range e.obls {
			cnt[o.Kind+" "+o.Site]++
		}
		shown := map[string]bool{}
		for k, v := range cnt {
			if v > 20 {
				fmt.Fprintf(os.Stderr, "    %6d x %s\n", v, k)
			}
		}
		for _, o := range e.obls {
			k := o.Kind + " " + o.Site
			if cnt[k] > 20 && !shown[k] {
				shown[k] = true
				fmt.Fprintf(os.Stderr, "      e.g. %s :: %s\n", o.ID, o.goal.Short())
			}
		}
	}
	fmt.Fprintf(os.Stderr, "  [%s] paths=%d merges=%d feasibility-queries=%d (%d ms) terms=%d\n", name, e.paths, e.merges, e.feasCalls, e.feasMs, TF.next)
	return hr
}

// runInits executes the package initialisers of repo packages (dependencies first).
func (e *Engine) runInits(st *State, pkg *ssa.Package) {
	if e.initDone == nil {
		e.initDone = map[*ssa.Package]bool{}
	}
	var order []*ssa.Package
	var visit func(p *ssa.Package)
	seen := map[*ssa.Package]bool{}
	visit = func(p *ssa.Package) {
		if seen[p] {
			return
		}
		seen[p] = true
		for _, imp := range p.Pkg.Imports() {
			if strings.HasPrefix(imp.Path(), e.repoPrefix) {
				if ip := e.prog.Package(imp); ip != nil {
					visit(ip)
				}
			}
		}
		order = append(order, p)
	}
	visit(pkg)
	for _, p := range order {
		initFn := p.Func("init")
		if initFn == nil || len(initFn.Blocks) == 0 {
			continue
		}
		fr := e.newFrame(initFn, nil, nil)
		st.frames = append(st.frames, fr)
		outs := e.runUntil(st, marker{fr.id, nil})
		if len(outs) != 1 || outs[0].status != stReturned {
			panic(unsupported("package init of " + p.Pkg.Path() + " did not return on a single path"))
		}
		*st = *outs[0]
		st.status = stRunning
		st.ret = nil
	}
	delete(e.funcsSeen, "init")
}

// SolveBudgetS bounds the wall-clock time spent on one harness's obligations.
var SolveBudgetS = 0
var dischargeStart time.Time

func discharge(pool *SolverPool, hr *HarnessResult, workers, timeoutMs int, dumpDir, second string) {
	dischargeStart = time.Now()
	// term construction is single-threaded: build all assert lists first
	asserts := map[*Obligation][]*Term{}
	sliced := map[*Obligation][]*Term{}
	for _, o := range hr.Obligations {
		for _, c := range o.pc {
			repOf(c)
		}
		if o.goal != nil {
			repOf(o.goal)
		}
	}
	for _, o := range hr.Obligations {
		as := append([]*Term(nil), o.pc...)
		if o.Kind != "reach" {
			ng := Not(o.goal)
			as = append(as, ng)
			// cone of influence: conjuncts unrelated to the goal are dropped for a
			// first attempt in which only unsat is accepted
			sl := append(slicePC(o.pc, ng), ng)
			if len(sl) < len(as) {
				sliced[o] = sl
			}
		}
		asserts[o] = as
	}
	ch := make(chan *Obligation)
	var wg sync.WaitGroup
	var mu sync.Mutex
	cache := map[string]*QueryResult{}
	failCount := map[string]int{}
	for w := 0; w < workers; w++ {
		wg.Add(1)
		go func() {
			defer wg.Done()
			for o := range ch {
				base := o.ID
				if i := strings.IndexAny(base, "~["); i >= 0 {
					base = base[:i]
				}
				mu.Lock()
				tooMany := failCount[base] >= 8
				mu.Unlock()
				if tooMany && o.Kind != "reach" {
					// enough counterexamples for this assertion: the rest is not solved (and not counted as held)
					o.Verdict, o.Solver, o.OK, o.Err = "unknown", "skipped", false, "skipped: 8 counterexamples for this assertion already"
					continue
				}
				if o.Kind != "reach" && o.goal.IsTrue() {
					o.Verdict, o.Solver, o.OK = "unsat", "simplifier", true
					continue
				}
				if SolveBudgetS > 0 && time.Since(dischargeStart) > time.Duration(SolveBudgetS)*time.Second {
					// never a success: reported as unknown (INCONCLUSIVE)
					o.Verdict, o.Solver, o.OK, o.Err = "unknown", "budget", false, fmt.Sprintf("not attempted: the solving budget of %d s for this harness was used up", SolveBudgetS)
					continue
				}
				as := asserts[o]
				if d := os.Getenv("GOSYM_DUMP_ALL"); d != "" {
					os.MkdirAll(d, 0755)
					termMu.Lock()
					script, _ := Script(as, nil)
					termMu.Unlock()
					os.WriteFile(filepath.Join(d, sanitize(o.ID)+".smt2"), []byte(script+"(check-sat)\n"), 0644)
				}
				var kb strings.Builder
				ids := make([]int, len(as))
				for i, a := range as {
					ids[i] = a.ID
				}
				sort.Ints(ids)
				for _, id := range ids {
					fmt.Fprintf(&kb, "%d,", id)
				}
				key := kb.String()
				mu.Lock()
				cr, hit := cache[key]
				mu.Unlock()
				var r QueryResult
				if hit {
					r = *cr
				} else {
					if sl, ok := sliced[o]; ok {
						r = pool.Solve(sl, timeoutMs, defaultPortfolio)
						if r.Verdict == Unsat {
							r.Solver += "+sliced"
						}
					}
					if r.Verdict != Unsat || sliced[o] == nil {
						r = pool.Solve(as, timeoutMs, defaultPortfolio)
					}
					mu.Lock()
					cache[key] = &r
					mu.Unlock()
				}
				o.Verdict = r.Verdict.String()
				o.Solver = r.Solver
				o.Abstract = r.Abstract
				o.Ms = r.Ms
				o.Err = r.Err
				if o.Kind != "reach" && r.Verdict == Sat {
					mu.Lock()
					failCount[base]++
					mu.Unlock()
				}
				if o.Kind == "reach" {
					o.OK = r.Verdict == Sat
				} else {
					o.OK = r.Verdict == Unsat
					if r.Verdict == Sat {
						o.Model = r.Model
					}
				}
				if second != "" && !hit {
					k2 := kindZ3New
					if second == "cvc5" {
						k2 = kindCVC5
					}
					r2 := pool.Solve(as, timeoutMs, []SolverKind{k2})
					if r2.Verdict != Unknown && r.Verdict != Unknown && r2.Verdict != r.Verdict {
						o.Err = fmt.Sprintf("SOLVER DISAGREEMENT: %s=%s %s=%s", r.Solver, r.Verdict, r2.Solver, r2.Verdict)
						o.OK = false
						o.Verdict = "unknown"
					}
				}
				if dumpDir != "" && (!o.OK || (os.Getenv("GOSYM_DUMP_SLOW_MS") != "" && fmt.Sprint(o.Ms) >= "" && o.Ms >= atoi64(os.Getenv("GOSYM_DUMP_SLOW_MS")))) {
					os.MkdirAll(dumpDir, 0755)
					script, _ := Script(as, nil)
					fn := filepath.Join(dumpDir, sanitize(o.ID)+".smt2")
					os.WriteFile(fn, []byte(script+"(check-sat)\n"), 0644)
				}
			}
		}()
	}
	for _, o := range hr.Obligations {
		ch <- o
	}
	close(ch)
	wg.Wait()
}

func sanitize(s string) string {
	return regexp.MustCompile(`[^A-Za-z0-9_.-]+`).ReplaceAllString(s, "_")
}

func atoi64(s string) int64 {
	var n int64
	fmt.Sscanf(s, "%d", &n)
	return n
}
