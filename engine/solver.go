package main

// Persistent solver processes (z3 -in / cvc5 --incremental), one query = one
// self-contained script after (reset). Any "(error" line makes the answer
// inconclusive.

import (
	"bufio"
	"fmt"
	"io"
	"math/big"
	"os/exec"
	"strings"
	"sync"
	"time"
)

type Verdict int

const (
	Unsat Verdict = iota
	Sat
	Unknown
)

func (v Verdict) String() string { return [...]string{"unsat", "sat", "unknown"}[v] }

type SolverKind struct {
	Name string
	Cmd  []string
}

var (
	kindZ3    = SolverKind{"z3-4.8.12", []string{"z3", "-in"}}
	kindZ3New = SolverKind{"z3-5.1.0", []string{"z3-new", "-in"}}
	kindCVC5  = SolverKind{"cvc5-1.0.3", []string{"cvc5", "--incremental", "--lang", "smt2", "--produce-models"}}
	// array-free bit-vector kernels with mul/div by constants
	kindCVC5Int = SolverKind{"cvc5-1.0.3-bv-as-int", []string{"cvc5", "--incremental", "--lang", "smt2", "--produce-models", "--solve-bv-as-int=sum"}}
)

type Solver struct {
	kind SolverKind
	cmd  *exec.Cmd
	in   io.WriteCloser
	out  *bufio.Reader
	seq      int
	dead     bool
	killOnce sync.Once
}

func startSolver(k SolverKind) (*Solver, error) {
	cmd := exec.Command(k.Cmd[0], k.Cmd[1:]...)
	in, err := cmd.StdinPipe()
	if err != nil {
		return nil, err
	}
	out, err := cmd.StdoutPipe()
	if err != nil {
		return nil, err
	}
	cmd.Stderr = cmd.Stdout
	if err := cmd.Start(); err != nil {
		return nil, err
	}
	return &Solver{kind: k, cmd: cmd, in: in, out: bufio.NewReaderSize(out, 1<<20)}, nil
}

func (s *Solver) kill() {
	s.killOnce.Do(func() {
		s.dead = true
		if s.cmd != nil && s.cmd.Process != nil {
			s.cmd.Process.Kill()
			go s.cmd.Wait()
		}
	})
}

// roundTrip sends text followed by an echo marker and returns all output lines before the marker.
func (s *Solver) roundTrip(text string, hardTimeout time.Duration) ([]string, error) {
	s.seq++
	marker := fmt.Sprintf("<<done-%d>>", s.seq)
	_, err := io.WriteString(s.in, text+"\n(echo \""+marker+"\")\n")
	if err != nil {
		return nil, err
	}
	type res struct {
		lines []string
		err   error
	}
	ch := make(chan res, 1)
	go func() {
		var lines []string
		for {
			line, err := s.out.ReadString('\n')
			if err != nil {
				ch <- res{lines, err}
				return
			}
			line = strings.TrimRight(line, "\r\n")
			if strings.Contains(line, marker) {
				ch <- res{lines, nil}
				return
			}
			if line != "" {
				lines = append(lines, line)
			}
		}
	}()
	select {
	case r := <-ch:
		return r.lines, r.err
	case <-time.After(hardTimeout):
		s.kill()
		return nil, fmt.Errorf("hard timeout")
	}
}

// AcceptAbstractSat: a satisfiable answer of the abstracted query (floating
// point results unconstrained, mul/div uninterpreted) is returned as a
// candidate counterexample. Only used where the counterexample is replayed
// natively, which is what decides.
var AcceptAbstractSat = false

// AbstractGraceS: how long a precise verdict is awaited after an abstracted query answered sat.
var AbstractGraceS = 5

type QueryResult struct {
	Abstract bool
	Verdict  Verdict
	Model   map[string]string // input var name -> hex (bit-vectors) / "true"/"false"
	Solver  string
	Ms      int64
	Err     string
}

// check runs one query. wantModel lists terms whose values are requested on sat.
func (s *Solver) check(script string, inputs []*Term, sels []SelRef, timeoutMs int) QueryResult {
	start := time.Now()
	qr := QueryResult{Verdict: Unknown, Solver: s.kind.Name}
	pre := "(reset)\n"
	if strings.HasPrefix(s.kind.Name, "z3") {
		pre += fmt.Sprintf("(set-option :timeout %d)\n", timeoutMs)
	} else {
		pre += fmt.Sprintf("(set-option :tlimit-per %d)\n(set-logic ALL)\n", timeoutMs)
	}
	lines, err := s.roundTrip(pre+script+"(check-sat)", time.Duration(timeoutMs)*time.Millisecond*2+5*time.Second)
	qr.Ms = time.Since(start).Milliseconds()
	if err != nil {
		qr.Err = err.Error()
		return qr
	}
	ans := ""
	for _, l := range lines {
		if strings.HasPrefix(l, "(error") {
			qr.Err = l
		}
		if l == "sat" || l == "unsat" || l == "unknown" || l == "timeout" {
			ans = l
		}
	}
	if qr.Err != "" {
		return qr
	}
	switch ans {
	case "unsat":
		qr.Verdict = Unsat
	case "sat":
		qr.Verdict = Sat
		qr.Model = map[string]string{}
		if len(inputs) > 0 {
			var sb strings.Builder
			sb.WriteString("(get-value (")
			for _, v := range inputs {
				if v.IsArr() {
					continue
				}
				sb.WriteString(smtName(v.Name) + " ")
			}
			sb.WriteString("))")
			ml, err := s.roundTrip(sb.String(), 30*time.Second)
			if err == nil {
				parseModel(strings.Join(ml, " "), qr.Model)
			}
		}
		if len(sels) > 0 {
			var sb strings.Builder
			sb.WriteString("(get-value (")
			for _, r := range sels {
				sb.WriteString(r.Idx + " " + r.Sel + " ")
			}
			sb.WriteString("))")
			ml, err := s.roundTrip(sb.String(), 30*time.Second)
			if err == nil {
				vals := parseValueList(strings.Join(ml, " "))
				for i, r := range sels {
					if 2*i+1 < len(vals) {
						idx, _ := new(big.Int).SetString(strings.TrimPrefix(vals[2*i], "0x"), 16)
						if idx != nil {
							qr.Model[fmt.Sprintf("%s@%s", r.Arr, idx.String())] = vals[2*i+1]
						}
					}
				}
			}
		}
	default:
		qr.Verdict = Unknown
	}
	qr.Ms = time.Since(start).Milliseconds()
	return qr
}

// parseModel parses ((name value) ...) where name is |quoted| or a plain symbol.
func parseModel(s string, out map[string]string) {
	i := 0
	n := len(s)
	skip := func() {
		for i < n && (s[i] == ' ' || s[i] == '\t' || s[i] == '\n') {
			i++
		}
	}
	skip()
	if i < n && s[i] == '(' {
		i++
	}
	for {
		skip()
		if i >= n || s[i] != '(' {
			return
		}
		i++
		skip()
		var name string
		if i < n && s[i] == '|' {
			k := strings.Index(s[i+1:], "|")
			if k < 0 {
				return
			}
			name = s[i+1 : i+1+k]
			i += k + 2
		} else {
			st := i
			for i < n && s[i] != ' ' && s[i] != ')' {
				i++
			}
			name = s[st:i]
		}
		skip()
		depth := 0
		st := i
		for i < n {
			if s[i] == '(' {
				depth++
			} else if s[i] == ')' {
				if depth == 0 {
					break
				}
				depth--
			}
			i++
		}
		out[name] = normVal(strings.TrimSpace(s[st:i]))
		i++
	}
}

func normVal(v string) string {
	if strings.HasPrefix(v, "#x") {
		return "0x" + v[2:]
	}
	if strings.HasPrefix(v, "#b") {
		n, _ := new(big.Int).SetString(v[2:], 2)
		return "0x" + n.Text(16)
	}
	if strings.HasPrefix(v, "(_ bv") {
		f := strings.Fields(v[5:])
		n, _ := new(big.Int).SetString(f[0], 10)
		if n != nil {
			return "0x" + n.Text(16)
		}
	}
	return v
}

// ---- pool ----

type SolverPool struct {
	all   []*Solver
	mu    sync.Mutex
	idle  map[string][]*Solver
	stats struct {
		queries int
		ms      int64
		byKind  map[string]int
	}
	TimeoutMs int
}

func newPool() *SolverPool {
	p := &SolverPool{idle: map[string][]*Solver{}, TimeoutMs: 60000}
	p.stats.byKind = map[string]int{}
	return p
}

func (p *SolverPool) get(k SolverKind) (*Solver, error) {
	p.mu.Lock()
	l := p.idle[k.Name]
	if len(l) > 0 {
		s := l[len(l)-1]
		p.idle[k.Name] = l[:len(l)-1]
		p.mu.Unlock()
		return s, nil
	}
	p.mu.Unlock()
	s, err := startSolver(k)
	if err == nil {
		p.mu.Lock()
		p.all = append(p.all, s)
		p.mu.Unlock()
	}
	return s, err
}

func (p *SolverPool) put(s *Solver) {
	if s.dead {
		return
	}
	p.mu.Lock()
	p.idle[s.kind.Name] = append(p.idle[s.kind.Name], s)
	p.mu.Unlock()
}

func (p *SolverPool) closeAll() {
	p.mu.Lock()
	defer p.mu.Unlock()
	for _, s := range p.all {
		if !s.dead {
			s.kill()
		}
	}
	p.all = nil
	p.idle = map[string][]*Solver{}
}

func hasArrays(ts []*Term) bool {
	seen := map[int]bool{}
	var rec func(t *Term) bool
	rec = func(t *Term) bool {
		if seen[t.ID] {
			return false
		}
		seen[t.ID] = true
		if t.W == -1 || t.Op == OpUF || t.Op == OpFpLt || t.Op == OpFpLe || t.Op == OpFpEq || t.Op == OpFpNaN {
			return true
		}
		for _, a := range t.Args {
			if rec(a) {
				return true
			}
		}
		if t.Op == OpVar && t.Axiom != nil {
			return rec(t.Axiom)
		}
		return false
	}
	for _, t := range ts {
		if rec(t) {
			return true
		}
	}
	return false
}

func hasLambda(ts []*Term) bool {
	seen := map[int]bool{}
	var rec func(t *Term) bool
	rec = func(t *Term) bool {
		if seen[t.ID] {
			return false
		}
		seen[t.ID] = true
		if t.Op == OpLambda {
			return true
		}
		for _, a := range t.Args {
			if rec(a) {
				return true
			}
		}
		return false
	}
	for _, t := range ts {
		if rec(t) {
			return true
		}
	}
	return false
}

// Solve decides the conjunction of asserts with the portfolio:
//  1. array-free arithmetic kernels: cvc5 with integer encoding;
//  2. race z3 against cvc5 (and, when multiplications/divisions occur next to
//     arrays, z3 on the UF-abstracted query, where only unsat is accepted);
//  3. z3 5.1.0 as a fallback.
func (p *SolverPool) Solve(asserts []*Term, timeoutMs int, portfolio []SolverKind) QueryResult {
	for _, a := range asserts {
		if a.IsFalse() {
			return QueryResult{Verdict: Unsat, Solver: "simplifier"}
		}
	}
	arrays := hasArrays(asserts)
	lam := hasLambda(asserts)
	hard := hasHardArith(asserts)
	termMu.Lock()
	script, inputs, sels := ScriptSel(asserts, extraDecls())
	termMu.Unlock()
	var live []*Solver
	var liveMu sync.Mutex
	run1 := func(k SolverKind, sc string, withModel bool, label string) QueryResult {
		s, err := p.get(k)
		if err != nil {
			return QueryResult{Verdict: Unknown, Err: err.Error(), Solver: k.Name}
		}
		liveMu.Lock()
		live = append(live, s)
		liveMu.Unlock()
		var r QueryResult
		if withModel {
			r = s.check(sc, inputs, sels, timeoutMs)
		} else {
			r = s.check(sc, nil, nil, timeoutMs)
		}
		liveMu.Lock()
		for i, x := range live {
			if x == s {
				live = append(live[:i], live[i+1:]...)
				break
			}
		}
		liveMu.Unlock()
		p.put(s)
		if label != "" {
			r.Solver = label
		}
		p.mu.Lock()
		p.stats.queries++
		p.stats.ms += r.Ms
		p.stats.byKind[r.Solver]++
		p.mu.Unlock()
		return r
	}
	killLosers := func() {
		liveMu.Lock()
		for _, x := range live {
			x.kill()
		}
		live = nil
		liveMu.Unlock()
	}
	if len(portfolio) == 1 {
		return run1(portfolio[0], script, true, "")
	}
	var last QueryResult
	if !arrays && hard {
		r := run1(kindCVC5Int, script, true, "")
		if r.Verdict != Unknown {
			return r
		}
		last = r
	}
	type cand struct {
		k         SolverKind
		sc        string
		model     bool
		label     string
		onlyUnsat bool
	}
	cands := []cand{{kindZ3, script, true, "", false}}
	if !lam {
		cands = append(cands, cand{kindCVC5, script, true, "", false})
	}
	fpa := hasFpAxioms(asserts)
	if fpa || (arrays && hard) || (fpa && hard) {
		// one abstracted candidate: floating-point results unconstrained and (when
		// present) mul/div/rem as uninterpreted functions; only unsat is accepted
		termMu.Lock()
		ab := asserts
		label := "z3-4.8.12"
		if hard {
			ab = abstractArith(asserts)
			label += "+uf-abstracted-mul/div"
		}
		if fpa {
			label += "+fp-results-abstracted"
		}
		sc, _, _ := ScriptOpt(ab, extraDecls(), fpa)
		termMu.Unlock()
		cands = append(cands, cand{kindZ3, sc, AcceptAbstractSat, label, !AcceptAbstractSat})
	}
	ch := make(chan QueryResult, len(cands))
	for _, c := range cands {
		c := c
		go func() {
			r := run1(c.k, c.sc, c.model, c.label)
			if c.onlyUnsat && r.Verdict != Unsat {
				r.Verdict = Unknown
			}
			if c.label != "" && strings.Contains(c.label, "abstracted") && r.Verdict == Sat {
				r.Abstract = true
			}
			ch <- r
		}()
	}
	got := 0
	var abstractSat *QueryResult
	var grace <-chan time.Time
	for got < len(cands) {
		var r QueryResult
		select {
		case r = <-ch:
		case <-grace:
			// no precise answer in time: go with the abstract candidate (replay decides)
			killLosers()
			go func(n int) {
				for i := 0; i < n; i++ {
					<-ch
				}
			}(len(cands) - got)
			return *abstractSat
		}
		got++
		if r.Verdict != Unknown {
			if r.Abstract && r.Verdict == Sat && got < len(cands) {
				// prefer a precise verdict if one arrives within 5 s
				rr := r
				abstractSat = &rr
				grace = time.After(time.Duration(AbstractGraceS) * time.Second)
				continue
			}
			// the losers are killed at once (a solver that keeps running would starve the other workers)
			killLosers()
			go func(n int) {
				for i := 0; i < n; i++ {
					<-ch
				}
			}(len(cands) - got)
			return r
		}
		last = r
	}
	if abstractSat != nil {
		return *abstractSat
	}
	r := run1(kindZ3New, script, true, "")
	if r.Verdict != Unknown {
		return r
	}
	if last.Solver == "" {
		last = r
	}
	return last
}

func extraDecls() []string { return nil }

var defaultPortfolio = []SolverKind{kindZ3, kindCVC5Int, kindZ3New, kindCVC5}

func hasHardArith(ts []*Term) bool {
	seen := map[int]bool{}
	var rec func(t *Term) bool
	rec = func(t *Term) bool {
		if seen[t.ID] {
			return false
		}
		seen[t.ID] = true
		switch t.Op {
		case OpMul, OpUDiv, OpURem, OpSDiv, OpSRem:
			return true
		}
		for _, a := range t.Args {
			if rec(a) {
				return true
			}
		}
		return false
	}
	for _, t := range ts {
		if rec(t) {
			return true
		}
	}
	return false
}

// parseValueList returns the values of ((expr value) (expr value) ...) in order.
func parseValueList(s string) []string {
	var out []string
	i, n := 0, len(s)
	for i < n && s[i] != '(' {
		i++
	}
	i++
	for i < n {
		for i < n && s[i] != '(' && s[i] != ')' {
			i++
		}
		if i >= n || s[i] == ')' {
			break
		}
		i++
		// skip the expression (balanced or atom)
		skipExpr := func() {
			for i < n && s[i] == ' ' {
				i++
			}
			if i < n && s[i] == '(' {
				d := 0
				for i < n {
					if s[i] == '(' {
						d++
					} else if s[i] == ')' {
						d--
						if d == 0 {
							i++
							return
						}
					}
					i++
				}
			} else if i < n && s[i] == '|' {
				i++
				for i < n && s[i] != '|' {
					i++
				}
				i++
			} else {
				for i < n && s[i] != ' ' && s[i] != ')' {
					i++
				}
			}
		}
		skipExpr()
		for i < n && s[i] == ' ' {
			i++
		}
		st := i
		skipExpr()
		out = append(out, normVal(strings.TrimSpace(s[st:i])))
		for i < n && s[i] != ')' {
			i++
		}
		i++
	}
	return out
}

// termMu serialises term construction done from solver workers.
var termMu sync.Mutex

const k3abs = "z3-4.8.12+uf-abstracted-mul/div"

// abstractArith replaces multiplications and divisions by uninterpreted
// functions (same function for the same operator and width).
func abstractArith(asserts []*Term) []*Term {
	memo := map[int]*Term{}
	var rec func(t *Term) *Term
	rec = func(t *Term) *Term {
		if len(t.Args) == 0 {
			return t
		}
		if r, ok := memo[t.ID]; ok {
			return r
		}
		if t.Op == OpLambda {
			memo[t.ID] = t
			return t
		}
		na := make([]*Term, len(t.Args))
		ch := false
		for i, a := range t.Args {
			na[i] = rec(a)
			if na[i] != a {
				ch = true
			}
		}
		var r *Term
		switch t.Op {
		case OpMul, OpUDiv, OpURem, OpSDiv, OpSRem:
			r = UF(fmt.Sprintf("abs_%s_%d", opNames[t.Op], t.W), t.W, na[0], na[1])
		default:
			r = t
			if ch {
				r = Rebuild(t, na)
			}
		}
		memo[t.ID] = r
		return r
	}
	out := make([]*Term, len(asserts))
	for i, a := range asserts {
		out[i] = rec(a)
	}
	return out
}
