#!/bin/sh
# Runs every claimed check (quick tier by default) and prints one line per property.
tier=${1:-quick}
for p in $(python3 -c "import json;print(' '.join(c['property_id'] for c in json.load(open('MANIFEST.json'))['checks']))"); do
  s=$(date +%s)
  out=$(./check $p --tier $tier 2>/dev/null | grep -E "^(VIOLATION|INCONCLUSIVE|KNOWN|$p tier)" | cut -c1-200)
  rc=$?
  e=$(date +%s)
  echo "== $p $((e-s))s"; echo "$out" | tail -4
done
