# Per-property configuration of the checks: which harness groups run in which
# tier, with which build tags and bounds. Bounds/outside lists are copied into
# the evidence next to what the engine measured.

PROPS = {
    "C19": {
        "groups": [
            {"pkg": "glow", "tags": "verif", "harness": "^verifH_C19_", "now_hook": ["glow/rate_limiter.go"]},
        ],
        "bounds": {"limit": "1..3", "calls": "limit+2 from the empty limiter; one inductive step from any state with <= 3 entries", "rate": "0 < rate < 2^40 ns", "instants": "0 <= t < 2^50 ns"},
        "outside": ["limits above 3", "the real scheduler below critical-section granularity"],
    },
    "C15": {
        "groups": [
            {"pkg": "glow", "tags": "verif", "harness": "^verifH_C15_"},
        ],
        "bounds": {},
        "outside": [],
    },
    "C20": {
        "groups": [
            {"pkg": "glow", "tags": "verif", "harness": "^verifH_C20_"},
        ],
        "bounds": {"unix time": "genesis-2^63 .. genesis+2^32-1 s", "build": "production constants (tag verif without test)"},
        "outside": ["unix times beyond genesis+2^32-1 s (uint32(time-genesis) wraps)"],
    },
}
