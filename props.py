# Per-property configuration of the checks: which harness groups run in which
# tier, with which build tags and bounds. Bounds/outside lists are copied into
# the evidence next to what the engine measured.

PROPS = {
    "C13": {
        "groups": [
            {"pkg": "server", "tags": "verif,test", "harness": "^verifH_C13_", "unwind": 4, "replay": "symbolic",
             "replay_note": "lock state and critical-section interference are ghost state of the symbolic run; a native run cannot observe 'field read without the mutex' or place an operation into a gap without instrumenting the code"},
        ],
        "bounds": {"roots": "10 server operations from a state with one device, one peer server", "interference": "the real conflicting authorization (ban) placed in the gap of the impact-data job"},
        "outside": ["the Go memory model below mutex granularity, the race detector on real workloads", "client-side concurrency (lock balance only, C11)", "production-only WattTime week job (dead code under the test tag used for these harnesses)"],
    },
    "C17": {
        "groups": [
            {"pkg": "server", "tags": "verif,test", "harness": "^verifH_C17_", "unwind": 4},
            {"pkg": "client", "tags": "verif,test", "harness": "^verifH_C11_sync_round_merge", "unwind": 6, "feas_ms": 8000, "timeout_ms": 120000},
            {"pkg": "client", "tags": "verif,test", "harness": "^verifH_C10_(genuine|long)", "unwind": 8, "feas_ms": 0, "timeout_ms": 120000, "now_hook": ["client/reports.go"]},
            {"pkg": "client", "tags": "verif,test", "harness": "^verifH_C10_tampered", "unwind": 8, "feas_ms": 0, "timeout_ms": 120000, "now_hook": ["client/reports.go"], "replay": "symbolic",
             "replay_note": "the forged signature is a symbolic value constrained only by 'the named verification is false'; a native run would need real forgeries"},
        ],
        "bounds": {"server list": "0..2 existing entries with arbitrary contents (2-byte locations), one POST of any body whose key is new or one of the existing ones, signed by the GCA or carrying arbitrary signature bytes",
                   "migration order": "0..1 (quick) / 0..2 (thorough) new servers, outer and inner signatures each genuine or arbitrary bytes",
                   "client": "as C11's sync-round merge harness and C10's reply harnesses"},
        "outside": ["server-side persistence of the server list and of migration orders (documented as not yet implemented)", "a crash in the middle of the client's three file writes of a migration (accepted risk per the code comments; not in the statement)", "unforgeability (Verify is an uninterpreted function)"],
    },
    "C10": {
        "groups": [
            {"pkg": "client", "tags": "verif,test", "harness": "^verifH_C10_(genuine|long)", "unwind": 8, "feas_ms": 0, "timeout_ms": 120000, "now_hook": ["client/reports.go"]},
            {"pkg": "client", "tags": "verif,test", "harness": "^verifH_C10_tampered", "unwind": 8, "feas_ms": 0, "timeout_ms": 120000, "now_hook": ["client/reports.go"], "replay": "symbolic",
             "replay_note": "the forged signature is a symbolic value constrained only by 'the named verification is false'; a native run would need real forgeries"},
        ],
        "bounds": {"genuine replies": "0..2 listed servers, each location 0, 3 or 255 bytes (symbolic content), any ban flags/ports/keys, with and without a migration order, any offset and bitfield, time stamp anywhere within +-24 h",
                   "tampered replies": "well-structured replies (0..1 listed servers, with/without a migration order) lacking exactly one of: server signature, fresh time stamp, own key, GCA signature on the migration, GCA signature on an entry; arbitrary byte strings are covered for panic-freedom only (C11)",
                   "server states": "one device with arbitrary live-window contents, 0..2 authorized servers (locations 0, 3 or 255 bytes) or a migration order with 0..1 new servers; unknown device id"},
        "outside": ["unforgeability (that an altered bit makes Verify fail is a fact about secp256k1/Keccak)", "more than 2 listed servers, locations longer than 255 bytes (the one-byte length field cannot carry them)", "real sockets"],
    },
    "C12": {
        "groups": [
            {"pkg": "server", "tags": "verif,test", "harness": "^verifH_C12_", "unwind": 4},
            {"pkg": "server", "tags": "verif,test", "harness": "^verifH_C01_signed"},
        ],
        "bounds": {"handlers": "7 HTTP handlers x {GET, POST, PUT} x any decodable body (strings <= 3 bytes, slices <= 2 elements) x arbitrary query values; TCP request 0..8 bytes; UDP as in C01", "peers": "each outbound http.Post fails or succeeds arbitrarily"},
        "outside": ["GeoStatsHandler's parsing of third-party payloads", "ArchiveHandler (see C14)", "real sockets and scheduler"],
    },
    "C03": {
        "groups": [
            {"pkg": "server", "tags": "verif,test", "harness": "^verifH_C03_", "unwind": 4},
        ],
        "bounds": {"devices": 1, "archived weeks": 1, "slots": "every slot k (symbolic) of the 2016"},
        "outside": ["JSON rendering of the response", "more than one device / archived week"],
    },
    "C05": {
        "groups": [
            {"pkg": "server", "tags": "verif,test", "harness": "^verifH_C05_file_present", "unwind": 5},
            {"pkg": "server", "tags": "verif,test", "harness": "^verifH_C05_crash", "unwind": 5, "replay": "symbolic",
             "replay_note": "the crash point is ghost state of the symbolic disk (completed system calls persist, the rest of the operation is lost); the natively replayable form of the same states is the file-present-but-empty harness"},
        ],
        "bounds": {"crash points": "every disk system call boundary of first start (<= 6), of one authorization / report / conflicting authorization (<= 2), and the create-then-write window of each of the 5 files the server writes"},
        "outside": ["torn or reordered writes, fsync semantics, power loss", "SIGKILL timing experiments on a running workload"],
    },
    "C04": {
        "groups": [
            {"pkg": "server", "tags": "verif,test", "harness": "^verifH_C04_", "unwind": 5},
        ],
        "bounds": {"history": "first start, registration, then 7 history shapes of 3-5 operations (ban with reports on disk; replay + conflicting report; two devices interleaved; identical resubmission; refused operations on a banned id; two reporting devices of which one is banned, in both report orders) with symbolic payloads; clock, offset and slots concrete", "restarts": "two in a row"},
        "outside": ["authorized-server list and migration orders (documented as not persisted)"],
    },
    "C06": {
        "groups": [
            {"pkg": "server", "tags": "verif,test", "harness": "^verifH_C06_"},
        ],
        "bounds": {"devices": "2 authorized + 1 banned id, arbitrary contents", "latitude/longitude": "finite (no NaN/Inf)"},
        "outside": ["JSON decoding of the request body (encoding/json, strconv)", "a new id whose key equals another live device's key"],
    },
    "C07": {
        "groups": [
            {"pkg": "server", "tags": "verif,test", "harness": "^verifH_C07_(register|write|no_auth)"},
            {"pkg": "server", "tags": "verif,test", "harness": "^verifH_C07_concurrent", "replay": "symbolic",
             "replay_note": "the interleaving (a second registration placed at a lock acquisition of the first) is ghost scheduling; a native run cannot place it without instrumenting the code"},
        ],
        "bounds": {"sequences": "one step from any state; register,register,replay,restart,register"},
        "outside": ["validity of the all-zero key under secp256k1 (a curve fact)", "real concurrency below critical-section granularity (registerGCA is one critical section; see C13)"],
    },
    "C11": {
        "groups": [
            {"pkg": "client", "tags": "verif,test", "harness": "^verifH_C11_sync_reply", "unwind": 3, "feas_ms": 0, "timeout_ms": 60000},
            {"pkg": "client", "tags": "verif,test", "harness": "^verifH_C11_sync_round", "unwind": 6, "feas_ms": 8000, "timeout_ms": 120000},
        ],
        "bounds": {"reply": "length prefix + 0..920 bytes of arbitrary content (at most 2 complete server entries after the 576-byte header; longer replies are outside the claim)",
                   "sync round": "1 or 2 known servers, each banned or not (8 configurations) x 0..5 failing attempts; a successful reply lists no server, a known one or a new one, banned or not, with or without a migration order; key bytes are distinct constants in the symbolic run (real keys in the native replay)"},
        "outside": ["real network timing/back-pressure", "more than 2 known servers / more than 1 listed server per reply in the round harnesses", "panic(err) on local disk-write failure (I/O errors are outside the disk model)"],
    },
    "C16": {
        "groups": [
            {"pkg": "client", "tags": "verif,test", "harness": "^verifH_C16_rows", "unwind": 5},
            {"pkg": "client", "tags": "verif,test", "harness": "^verifH_C16_value_rule_fixed", "unwind": 5, "abstract_grace_s": 90, "timeout_ms": 120000},
        ],
        "bounds": {"rows": "0..2 (quick) / 0..3 (thorough), each with 1..3 fields", "timestamps": "< genesis + 2^32 s", "value rule": "finite scaled values within +-9.2e18 (all calibrations, fp.mul/fp.div abstracted by uninterpreted functions); precise IEEE arithmetic for the calibration pairs (-2000,1000), (1000,1000), (-2000,908), (1,3) with readings in [24, 1e12)"},
        "outside": ["encoding/csv tokenisation (quotes, CRLF) and strconv text semantics (contracts)", "float->uint64 for NaN/Inf/overflow (absence of crashes only)", "arm64 float conversion (saturating)"],
    },
    "C09": {
        "groups": [
            {"pkg": "client", "tags": "verif,test", "harness": "^verifH_C09_"},
        ],
        "bounds": {"history file": "0..24 bytes of arbitrary content", "timeslot, value": "all 32-bit values"},
        "outside": [],
    },
    "C18": {
        "groups": [
            {"pkg": "glow", "tags": "verif", "harness": "^verifH_C18_", "now_hook": ["glow/event_log.go"], "unwind": 6},
        ],
        "bounds": {"entries": "<= 2 in the inductive steps, <= 3 Printf calls from the empty log", "line length": "<= 3-4 bytes, line limit <= 6, max bytes <= 40", "timestamps per entry": "1..2"},
        "outside": ["format verbs in logged lines (fmt.Sprintf is a stub returning its format when there are no operands)", "more than 3 entries"],
    },
    "C02": {
        "groups": [
            {"pkg": "server", "tags": "verif,test", "harness": "^verifH_C02_"},
        ],
        "bounds": {"devices": 2, "capacity": "<= (2^64-1)/135", "history": "one inductive step from any state satisfying the slot invariant (covers sequences of any length); two-report sequences in both orders"},
        "outside": ["Capacity above (2^64-1)/135 (Capacity*135 wraps)"],
    },
    "C01": {
        "groups": [
            {"pkg": "server", "tags": "verif,test", "harness": "^verifH_C01_signed"},
            {"pkg": "server", "tags": "verif,test", "harness": "^verifH_C01_arbitrary", "replay": "symbolic",
             "replay_note": "Verify is an uninterpreted function in this harness; a model may need Verify(garbage)=true, which no native run can produce"},
        ],
        "bounds": {"devices": 1, "datagram length": "0..200", "offset": "multiple of 2016, <= 2^32-6050"},
        "outside": ["unforgeability of secp256k1/Keccak", "kernel UDP delivery"],
    },
    "C19": {
        "groups": [
            {"pkg": "glow", "tags": "verif", "harness": "^verifH_C19_", "now_hook": ["glow/rate_limiter.go"]},
        ],
        "bounds": {"limit": "1..3", "calls": "limit+2 from the empty limiter; one inductive step from any state with <= 3 entries", "rate": "0 < rate < 2^40 ns", "instants": "0 <= t < 2^50 ns"},
        "outside": ["limits above 3", "the real scheduler below critical-section granularity"],
    },
    "C15": {
        "groups": [
            {"pkg": "glow", "tags": "verif", "harness": "^verifH_C15_"},
            {"pkg": "server", "tags": "verif,test", "harness": "^verifH_C15_", "unwind": 8},
        ],
        "bounds": {"weekly statistics record": "device count 0, every input length 0..80 (valid: 72) as its own case, arbitrary content"},
        "outside": [],
    },
    "C20": {
        "groups": [
            {"pkg": "glow", "tags": "verif", "harness": "^verifH_C20_"},
            # acceptance-window comparisons for every 32-bit clock value and timeslot (server side, test clock)
            {"pkg": "server", "tags": "verif,test", "harness": "^verifH_C01_signed"},
        ],
        "bounds": {"unix time": "genesis-2^63 .. genesis+2^32-1 s", "build": "production constants (tag verif without test)"},
        "outside": ["unix times beyond genesis+2^32-1 s (uint32(time-genesis) wraps)"],
    },
}

NOT_APPLICABLE = {
    "C08": "no sound end-to-end check could be completed with this technique in the time available: the claim composes the client's 4032-slot resend loop with the server's bitfield loop and acceptance rule; the server-side reply-layout harness (4032 merged iterations + symbolic-length appends) did not finish within the solving budget, so only the parts are decided elsewhere (retransmission identity for int32 readings: C09; use of the reply by the sync round: C11; acceptance and idempotence at the server: C01/C02). See DESIGN.md section 0.3.",
    "C14": "not built: the archive claim needs a schedule query over ghost-disk events with models of archive/zip and io.Copy that the engine does not have; rate limiting is decided by C19, key-file handling at start-up by C05. See DESIGN.md section 0.3.",
}
